package message

// Replay for obligation message.(*handler).handleClose#post:a-closing-router-gets-this-handlers-subscriber-closed (C06):
// Router.Close is to close every handler's subscriber. handleClose selects between "the router is closing" (close
// the subscriber) and "the context ended" (only stop); Run cancels the context right after the closing signal, so
// both cases are ready together and the runtime picks one at random - when it picks the second, the subscriber's
// Close is never called. One gate call, inserted in an overlay copy of router.go (nothing is written to the
// repository), holds handleClose before its select until both signals have been given.

import (
	"context"
	"sync"
	"sync/atomic"
	"testing"
	"time"
)

type gowpGateT struct {
	reached chan struct{}
	release chan struct{}
}

var (
	gowpGatesMu sync.Mutex
	gowpGates   = map[string]*gowpGateT{}
)

func gowpGate(name string) {
	gowpGatesMu.Lock()
	g := gowpGates[name]
	gowpGatesMu.Unlock()
	if g == nil {
		return
	}
	select {
	case g.reached <- struct{}{}:
	default:
	}
	if g.release != nil {
		<-g.release
	}
}

type replayCtxSub struct {
	closeCalls int32
}

func (s *replayCtxSub) Subscribe(ctx context.Context, topic string) (<-chan *Message, error) {
	ch := make(chan *Message)
	go func() { <-ctx.Done(); close(ch) }()
	return ch, nil
}
func (s *replayCtxSub) Close() error { atomic.AddInt32(&s.closeCalls, 1); return nil }

func TestReplayCloseLeavesASubscriberUnclosed(t *testing.T) {
	const rounds = 40
	notClosed := 0
	for i := 0; i < rounds; i++ {
		g := &gowpGateT{reached: make(chan struct{}, 1), release: make(chan struct{})}
		gowpGatesMu.Lock()
		gowpGates["handleclose.before_select"] = g
		gowpGatesMu.Unlock()

		r, err := NewRouter(RouterConfig{CloseTimeout: 5 * time.Second}, nil)
		if err != nil {
			t.Fatal(err)
		}
		sub := &replayCtxSub{}
		r.AddNoPublisherHandler("h", "topic", sub, func(*Message) error { return nil })
		runDone := make(chan struct{})
		go func() { r.Run(context.Background()); close(runDone) }()
		select {
		case <-g.reached:
		case <-time.After(5 * time.Second):
			t.Skip("gate not reached: handleClose was moved; nothing to replay")
		}
		if err := r.Close(); err != nil {
			t.Fatalf("Close: %v", err)
		}
		<-runDone // Run has cancelled the handlers' context: both cases of the select are ready now
		close(g.release)
		deadline := time.Now().Add(100 * time.Millisecond)
		for atomic.LoadInt32(&sub.closeCalls) == 0 && time.Now().Before(deadline) {
			time.Sleep(5 * time.Millisecond)
		}
		if atomic.LoadInt32(&sub.closeCalls) == 0 {
			notClosed++
		}
	}
	if notClosed > 0 {
		t.Fatalf("Router.Close returned nil, but in %d of %d routers the handler's subscriber was never closed", notClosed, rounds)
	}
}
