package gochannel

// Replay for the wait-level obligations of the teardown goroutine and of Close / subscriber.Close / the send loop
// (C07: "closing ... and cancelling a subscription's context always complete ... an unsettled message"):
// a thread that has to give a closing signal gives it before it blocks on anything whose holder may be waiting
// for that signal. The tests drive the two situations in which the holder does wait: a blocking Publish that
// keeps the topic locked until its delivery is settled, and a send loop parked on an unsettled delivery.

import (
	"context"
	"testing"
	"time"

	"github.com/ThreeDotsLabs/watermill/message"
)

// Blocking mode: the subscription whose delivery is unsettled is cancelled. Publish holds the topic until that
// delivery ends, the delivery ends only on the subscription's closing signal: so the teardown must give the signal
// before it asks for the locks.
func TestReplayCancelWithUnsettledDeliveryInBlockingMode(t *testing.T) {
	g := NewGoChannel(Config{BlockPublishUntilSubscriberAck: true}, nil)
	ctx, cancel := context.WithCancel(context.Background())
	defer cancel()
	cancelled, err := g.Subscribe(ctx, "topic")
	if err != nil {
		t.Fatal(err)
	}
	published := make(chan error, 1)
	go func() { published <- g.Publish("topic", message.NewMessage("1", nil)) }()
	select {
	case <-cancelled: // received, neither acked nor nacked
	case <-time.After(5 * time.Second):
		t.Fatal("subscription did not receive the message")
	}
	cancel()
	select {
	case _, ok := <-cancelled:
		if ok {
			t.Fatal("unexpected message on the cancelled subscription")
		}
	case <-time.After(3 * time.Second):
		t.Fatal("output channel of the cancelled subscription was not closed: the teardown waits for the topic, which the blocked Publish holds until the teardown gives the closing signal")
	}
	select {
	case <-published:
	case <-time.After(3 * time.Second):
		t.Fatal("Publish still blocked after its only unsettled subscription was cancelled")
	}
	closed := make(chan struct{})
	go func() { _ = g.Close(); close(closed) }()
	select {
	case <-closed:
	case <-time.After(3 * time.Second):
		t.Fatal("Close did not return")
	}
}

// Close with a delivery that was read and never settled: the send loop is parked waiting for the Ack holding the
// subscription's sending lock; Close must get through all the same.
func TestReplayCloseWithUnsettledDelivery(t *testing.T) {
	for _, cfg := range []Config{{}, {BlockPublishUntilSubscriberAck: true}, {Persistent: true}} {
		g := NewGoChannel(cfg, nil)
		msgs, err := g.Subscribe(context.Background(), "topic")
		if err != nil {
			t.Fatal(err)
		}
		go func() { _ = g.Publish("topic", message.NewMessage("1", nil)) }()
		select {
		case <-msgs: // read, never settled
		case <-time.After(5 * time.Second):
			t.Fatal("subscription did not receive the message")
		}
		closed := make(chan struct{})
		go func() { _ = g.Close(); close(closed) }()
		select {
		case <-closed:
		case <-time.After(3 * time.Second):
			t.Fatalf("Close did not return with an unsettled delivery (config %+v)", cfg)
		}
		select {
		case _, ok := <-msgs:
			if ok {
				t.Fatal("unexpected message after Close")
			}
		case <-time.After(time.Second):
			t.Fatal("output channel not closed after Close returned")
		}
	}
}
