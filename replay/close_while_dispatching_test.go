package message

// Replay for obligation message.(*Router).waitForHandlers$1#assert:the-wait-for-invocations-starts-only-after-every-receive-loop-has-ended (C06):
// Close must return nil only when no handler invocation is in progress. On the pinned tree the two waits of
// waitForHandlers ran concurrently: the wait for invocations could finish (count 0) while a receive loop was still
// alive, that loop then dispatched one more message, and Close returned nil while its handler was running.
// The schedule is forced by two gate calls that the replay inserts in an overlay copy of router.go (nothing is
// written to the repository): the receive loop is parked right after it received a message, and the wait for
// invocations reports when it has returned.

import (
	"context"
	"sync"
	"testing"
	"time"
)

type gowpGateT struct {
	reached chan struct{}
	release chan struct{}
}

var (
	gowpGatesMu sync.Mutex
	gowpGates   = map[string]*gowpGateT{}
)

func gowpGate(name string) {
	gowpGatesMu.Lock()
	g := gowpGates[name]
	gowpGatesMu.Unlock()
	if g == nil {
		return
	}
	select {
	case g.reached <- struct{}{}:
	default:
	}
	if g.release != nil {
		<-g.release
	}
}

type replayChanSub struct {
	ch   chan *Message
	once sync.Once
}

func (s *replayChanSub) Subscribe(ctx context.Context, topic string) (<-chan *Message, error) {
	return s.ch, nil
}
func (s *replayChanSub) Close() error { s.once.Do(func() { close(s.ch) }); return nil }

func TestReplayCloseReturnsNilWhileAHandlerIsRunning(t *testing.T) {
	parked := &gowpGateT{reached: make(chan struct{}, 1), release: make(chan struct{})}
	waited := &gowpGateT{reached: make(chan struct{}, 1)}
	gowpGatesMu.Lock()
	gowpGates["run.received"] = parked
	gowpGates["close.running_wait_done"] = waited
	gowpGatesMu.Unlock()

	r, err := NewRouter(RouterConfig{CloseTimeout: 10 * time.Second}, nil)
	if err != nil {
		t.Fatal(err)
	}
	sub := &replayChanSub{ch: make(chan *Message)}
	handlerStarted := make(chan struct{})
	handlerRelease := make(chan struct{})
	r.AddNoPublisherHandler("h", "topic", sub, func(*Message) error {
		close(handlerStarted)
		<-handlerRelease
		return nil
	})
	go r.Run(context.Background())
	select {
	case <-r.Running():
	case <-time.After(5 * time.Second):
		t.Fatal("router did not start")
	}
	msg := NewMessage("1", nil)
	sub.ch <- msg
	select {
	case <-parked.reached:
	case <-time.After(5 * time.Second):
		t.Skip("gate not reached: the receive loop was moved; nothing to replay")
	}
	closeResult := make(chan error, 1)
	go func() { closeResult <- r.Close() }()
	// the wait for invocations returns (count zero) while the receive loop is parked with a message in hand
	select {
	case <-waited.reached:
	case <-time.After(time.Second):
		// a tree that waits for the receive loops first never gets here while the loop is parked: fine
	}
	close(parked.release) // the loop dispatches the message and ends (Close closed the subscriber)
	select {
	case <-handlerStarted:
	case <-time.After(5 * time.Second):
		t.Fatal("the parked message was never handled")
	}
	select {
	case err := <-closeResult:
		close(handlerRelease)
		t.Fatalf("Close returned %v while the handler invocation was still in progress", err)
	case <-time.After(500 * time.Millisecond):
	}
	close(handlerRelease)
	select {
	case err := <-closeResult:
		if err != nil {
			t.Fatalf("Close: %v", err)
		}
	case <-time.After(5 * time.Second):
		t.Fatal("Close did not return after the handler finished")
	}
	select {
	case <-msg.Acked():
	case <-time.After(time.Second):
		t.Fatal("the handled message was not acked")
	}
}
