package message

// Replay for obligation message.(*Router).Close#post:nil-only-when-a-close-has-waited-for-the-handlers-without-timing-out (C06):
// Close must return nil only when no handler invocation is in progress. A first Close that times out returns an
// error, but it leaves the router marked closed, and every later Close returns nil at once - also while the handler
// that made the first one time out is still running. No schedule forcing is needed.

import (
	"context"
	"testing"
	"time"
)

type replayOneMsgSub struct{ ch chan *Message }

func (s replayOneMsgSub) Subscribe(ctx context.Context, topic string) (<-chan *Message, error) {
	return s.ch, nil
}
func (s replayOneMsgSub) Close() error { return nil }

func TestReplaySecondCloseReturnsNilWhileTheHandlerStillRuns(t *testing.T) {
	r, err := NewRouter(RouterConfig{CloseTimeout: 50 * time.Millisecond}, nil)
	if err != nil {
		t.Fatal(err)
	}
	sub := replayOneMsgSub{ch: make(chan *Message, 1)}
	started := make(chan struct{})
	release := make(chan struct{})
	r.AddNoPublisherHandler("h", "topic", sub, func(*Message) error {
		close(started)
		<-release
		return nil
	})
	go r.Run(context.Background())
	select {
	case <-r.Running():
	case <-time.After(5 * time.Second):
		t.Fatal("router did not start")
	}
	sub.ch <- NewMessage("1", nil)
	select {
	case <-started:
	case <-time.After(5 * time.Second):
		t.Fatal("handler did not start")
	}
	if err := r.Close(); err == nil {
		close(release)
		t.Skip("the first Close did not time out although the handler is blocked: nothing to replay")
	}
	err = r.Close()
	close(release)
	if err == nil {
		t.Fatal("the second Close returned nil while the handler invocation was still in progress")
	}
}
