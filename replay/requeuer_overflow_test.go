package requeuer

// Replay for obligation requeuer.(*Requeuer).handler#nooverflow:add (C17): the retries counter is
// raised by exactly one for arbitrary prior values.

import (
	"math"
	"strconv"
	"testing"

	"github.com/ThreeDotsLabs/watermill/message"
)

type replayPub struct{}

func (replayPub) Publish(topic string, messages ...*message.Message) error { return nil }
func (replayPub) Close() error                                              { return nil }

func TestReplayRequeuerCounterOverflow(t *testing.T) {
	r := &Requeuer{config: Config{
		Publisher:            replayPub{},
		GeneratePublishTopic: func(GeneratePublishTopicParams) (string, error) { return "t", nil },
	}}
	msg := message.NewMessage("1", nil)
	msg.Metadata.Set(RetriesKey, strconv.Itoa(math.MaxInt))
	if err := r.handler(msg); err != nil {
		t.Fatal(err)
	}
	got, err := strconv.Atoi(msg.Metadata.Get(RetriesKey))
	if err != nil {
		t.Fatal(err)
	}
	if got <= 0 {
		t.Fatalf("retries counter %d after requeueing a message whose counter was %d (wrapped around)", got, math.MaxInt)
	}
}
