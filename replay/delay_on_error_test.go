package middleware

// Replay for obligation middleware.(*DelayOnError).applyDelay#post:delay-is-min-of-previous-times-multiplier-and-cap (C19):
// on the k-th consecutive failure the delay is min(InitialInterval x Multiplier^(k-1), MaxInterval),
// fractional multipliers included.

import (
	"errors"
	"testing"
	"time"

	"github.com/ThreeDotsLabs/watermill/components/delay"
	"github.com/ThreeDotsLabs/watermill/message"
)

func TestReplayDelayOnErrorFractionalMultiplier(t *testing.T) {
	d := &DelayOnError{InitialInterval: 100 * time.Millisecond, MaxInterval: time.Hour, Multiplier: 1.5}
	h := d.Middleware(func(m *message.Message) ([]*message.Message, error) { return nil, errors.New("fail") })
	msg := message.NewMessage("1", nil)
	want := []time.Duration{100 * time.Millisecond, 150 * time.Millisecond, 225 * time.Millisecond}
	for k, w := range want {
		h(msg)
		got, err := time.ParseDuration(msg.Metadata.Get(delay.DelayedForKey))
		if err != nil {
			t.Fatal(err)
		}
		if got != w {
			t.Fatalf("failure %d: delayed for %v, want %v (Multiplier 1.5)", k+1, got, w)
		}
	}
}
