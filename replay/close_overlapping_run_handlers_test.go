package message

// Replay for the lock-order obligations of the message package (C06: Close "times out instead of hanging"):
// Close keeps closedLock while it asks for handlersLock, so a function that holds handlersLock must never ask for
// closedLock (e.g. through IsClosed). The schedule is forced by one gate the replay inserts, in an overlay copy of
// router.go, right after RunHandlers (resp. AddHandler) has taken handlersLock: the function is parked there, Close
// is started and given time to take closedLock, then the function is released. Close must return.

import (
	"context"
	"sync"
	"testing"
	"time"
)

type gowpGateT struct {
	reached chan struct{}
	release chan struct{}
}

var (
	gowpGatesMu sync.Mutex
	gowpGates   = map[string]*gowpGateT{}
)

func gowpGate(name string) {
	gowpGatesMu.Lock()
	g := gowpGates[name]
	gowpGatesMu.Unlock()
	if g == nil {
		return
	}
	select {
	case g.reached <- struct{}{}:
	default:
	}
	if g.release != nil {
		<-g.release
	}
}

func gowpArm(name string) *gowpGateT {
	g := &gowpGateT{reached: make(chan struct{}, 1), release: make(chan struct{})}
	gowpGatesMu.Lock()
	gowpGates[name] = g
	gowpGatesMu.Unlock()
	return g
}

func gowpDisarm(name string) {
	gowpGatesMu.Lock()
	delete(gowpGates, name)
	gowpGatesMu.Unlock()
}

func replayCloseMustReturn(t *testing.T, r *Router, parked *gowpGateT, gate string) {
	select {
	case <-parked.reached:
	case <-time.After(5 * time.Second):
		t.Fatal("the gate was not reached")
	}
	gowpDisarm(gate)
	closed := make(chan error, 1)
	go func() { closed <- r.Close() }()
	time.Sleep(300 * time.Millisecond) // Close has closedLock now and waits for handlersLock
	close(parked.release)
	select {
	case <-closed:
	case <-time.After(5 * time.Second):
		t.Fatal("Close hangs: it holds closedLock and waits for handlersLock, whose holder asks for closedLock")
	}
}

func TestReplayCloseOverlappingRunHandlers(t *testing.T) {
	parked := gowpArm("run-handlers.locked")
	r, err := NewRouter(RouterConfig{CloseTimeout: time.Second}, nil)
	if err != nil {
		t.Fatal(err)
	}
	go func() { _ = r.Run(context.Background()) }()
	replayCloseMustReturn(t, r, parked, "run-handlers.locked")
}

func TestReplayCloseOverlappingAddHandler(t *testing.T) {
	parked := gowpArm("add-handler.locked")
	r, err := NewRouter(RouterConfig{CloseTimeout: time.Second}, nil)
	if err != nil {
		t.Fatal(err)
	}
	go func() {
		defer func() { _ = recover() }()
		r.AddNoPublisherHandler("h", "topic", &replayIdleSub{}, func(*Message) error { return nil })
	}()
	replayCloseMustReturn(t, r, parked, "add-handler.locked")
}

type replayIdleSub struct{}

func (replayIdleSub) Subscribe(ctx context.Context, topic string) (<-chan *Message, error) {
	ch := make(chan *Message)
	go func() { <-ctx.Done(); close(ch) }()
	return ch, nil
}
func (replayIdleSub) Close() error { return nil }
