package metrics

// Replay for obligations
//   metrics.(HandlerPrometheusMetricsMiddleware).Middleware$1#assert:success-label-is-true-only-...
//   metrics.(PublisherPrometheusMetricsDecorator).Publish#assert:success-label-is-true-only-...   (C20):
// an invocation / publish call that panics must not be counted with success="true".

import (
	"testing"

	"github.com/prometheus/client_golang/prometheus"
	"github.com/ThreeDotsLabs/watermill/message"
)

func replaySamples(t *testing.T, reg *prometheus.Registry, name string) map[string]uint64 {
	mfs, err := reg.Gather()
	if err != nil {
		t.Fatal(err)
	}
	out := map[string]uint64{}
	for _, mf := range mfs {
		if mf.GetName() != name {
			continue
		}
		for _, m := range mf.GetMetric() {
			v := ""
			for _, l := range m.GetLabel() {
				if l.GetName() == labelSuccess {
					v = l.GetValue()
				}
			}
			out[v] += m.GetHistogram().GetSampleCount()
		}
	}
	return out
}

func TestReplayPanickingHandlerNotCountedAsSuccess(t *testing.T) {
	reg := prometheus.NewRegistry()
	b := NewPrometheusMetricsBuilder(reg, "", "")
	mw := b.NewRouterMiddleware().Middleware
	h := mw(func(msg *message.Message) ([]*message.Message, error) { panic("boom") })
	func() {
		defer func() { recover() }()
		h(message.NewMessage("1", nil))
	}()
	got := replaySamples(t, reg, "handler_execution_time_seconds")
	if got["true"] != 0 || got["false"] != 1 {
		t.Fatalf("panicking handler invocation counted as %v, want exactly one sample with success=false", got)
	}
}

type replayPanicPub struct{}

func (replayPanicPub) Publish(topic string, messages ...*message.Message) error { panic("boom") }
func (replayPanicPub) Close() error                                              { return nil }

func TestReplayPanickingPublishNotCountedAsSuccess(t *testing.T) {
	reg := prometheus.NewRegistry()
	b := NewPrometheusMetricsBuilder(reg, "", "")
	pub, err := b.DecoratePublisher(replayPanicPub{})
	if err != nil {
		t.Fatal(err)
	}
	func() {
		defer func() { recover() }()
		pub.Publish("topic", message.NewMessage("1", nil))
	}()
	got := replaySamples(t, reg, "publish_time_seconds")
	if got["true"] != 0 || got["false"] != 1 {
		t.Fatalf("panicking publish counted as %v, want exactly one sample with success=false", got)
	}
}
