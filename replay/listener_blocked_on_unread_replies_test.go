package requestreply

// Replay for obligation requestreply.(PubSubBackend[Result]).ListenForNotifications$1#escapable@send:replyChan (C18):
// the listener must terminate when the caller's context ends - reply channel closed, OnListenForReplyFinished run
// once - no matter how many replies arrived or whether the caller kept reading. On the pinned tree the listener sent
// every reply with an unconditional send on a channel with one slot: with two replies and a caller that does not
// read, it blocked in the second send for ever and noticed neither the cancel nor the time-out. No schedule forcing
// is needed.

import (
	"context"
	"sync/atomic"
	"testing"
	"time"

	"github.com/ThreeDotsLabs/watermill/message"
)

type replayNotifySub struct{ ch chan *message.Message }

func (s replayNotifySub) Subscribe(ctx context.Context, topic string) (<-chan *message.Message, error) {
	return s.ch, nil
}
func (s replayNotifySub) Close() error { return nil }

type replayNopPub struct{}

func (replayNopPub) Publish(topic string, messages ...*message.Message) error { return nil }
func (replayNopPub) Close() error                                              { return nil }

func TestReplayListenerFinishesAlthoughRepliesAreNotRead(t *testing.T) {
	var finished int32
	sub := replayNotifySub{ch: make(chan *message.Message)}
	backend, err := NewPubSubBackend[struct{}](PubSubBackendConfig{
		Publisher: replayNopPub{},
		SubscriberConstructor: func(PubSubBackendSubscribeParams) (message.Subscriber, error) {
			return sub, nil
		},
		GeneratePublishTopic:   func(PubSubBackendPublishParams) (string, error) { return "replies", nil },
		GenerateSubscribeTopic: func(PubSubBackendSubscribeParams) (string, error) { return "replies", nil },
		OnListenForReplyFinished: func(context.Context, PubSubBackendSubscribeParams) {
			atomic.AddInt32(&finished, 1)
		},
	}, BackendPubsubJSONMarshaler[struct{}]{})
	if err != nil {
		t.Fatal(err)
	}
	ctx, cancel := context.WithCancel(context.Background())
	replies, err := backend.ListenForNotifications(ctx, BackendListenForNotificationsParams{OperationID: "op-1"})
	if err != nil {
		t.Fatal(err)
	}
	// two replies for this request arrive (a command handled twice, e.g. after a redelivery); the caller reads none
	for i := 0; i < 2; i++ {
		m := message.NewMessage("n", []byte(`{}`))
		m.Metadata.Set(OperationIDMetadataKey, "op-1")
		select {
		case sub.ch <- m:
		case <-time.After(2 * time.Second):
			t.Fatalf("the listener did not take reply %d", i+1)
		}
	}
	cancel()
	deadline := time.Now().Add(2 * time.Second)
	for atomic.LoadInt32(&finished) == 0 && time.Now().Before(deadline) {
		time.Sleep(10 * time.Millisecond)
	}
	if n := atomic.LoadInt32(&finished); n != 1 {
		t.Fatalf("after the caller cancelled, OnListenForReplyFinished ran %d times within 2s (the listener is stuck sending a reply nobody reads)", n)
	}
	// the channel must end up closed: drain what is buffered, then expect the close
	closed := false
	for i := 0; i < 4 && !closed; i++ {
		select {
		case _, ok := <-replies:
			closed = !ok
		case <-time.After(time.Second):
			t.Fatal("the reply channel was not closed")
		}
	}
	if !closed {
		t.Fatal("the reply channel was not closed")
	}
}
