package message

// Replay for obligation message.(*Message).Equals#post:iff (C16): the solver's counterexample shape
// is "a key present on one side only, both values empty".

import "testing"

func TestReplayEqualsKeySets(t *testing.T) {
	a := NewMessage("u", []byte("p"))
	b := NewMessage("u", []byte("p"))
	a.Metadata["a"] = ""
	b.Metadata["b"] = ""
	if a.Equals(b) {
		t.Fatalf("Equals is true for metadata %v vs %v (different key sets)", a.Metadata, b.Metadata)
	}
	c := a.Copy()
	if !c.Equals(a) || !a.Equals(c) {
		t.Fatalf("Copy does not Equal the original")
	}
	c.Metadata["x"] = "y"
	if _, leaked := a.Metadata["x"]; leaked {
		t.Fatalf("Copy shares its metadata map with the original")
	}
}
