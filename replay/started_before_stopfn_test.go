package message

// Replay for obligation message.(*Router).RunHandlers#assert:stop-and-stopped-usable-once-started-is-observable (C10):
// once a handler's Started() channel is closed, Stop() and Stopped() must be usable.
// The schedule "observer runs right after close(h.startedCh)" is forced by one gate call that the
// replay inserts (in an overlay copy of router.go, nothing is written to the repository) after that close.

import (
	"context"
	"testing"
	"time"
)

var (
	gowpGateReached = make(chan struct{}, 16)
	gowpGateRelease = make(chan struct{})
)

func gowpGate(string) {
	gowpGateReached <- struct{}{}
	<-gowpGateRelease
}

type replayNopSub struct{}

func (replayNopSub) Subscribe(ctx context.Context, topic string) (<-chan *Message, error) {
	ch := make(chan *Message)
	go func() { <-ctx.Done(); close(ch) }()
	return ch, nil
}
func (replayNopSub) Close() error { return nil }

func TestReplayStopUsableOnceStartedObservable(t *testing.T) {
	r, err := NewRouter(RouterConfig{}, nil)
	if err != nil {
		t.Fatal(err)
	}
	h := r.AddNoPublisherHandler("h", "topic", replayNopSub{}, func(*Message) error { return nil })
	go r.Run(context.Background())
	select {
	case <-gowpGateReached:
	case <-time.After(5 * time.Second):
		t.Skip("gate not reached: the close of startedCh was moved; nothing to replay")
	}
	failed := ""
	select {
	case <-h.Started():
		// Started() is observable: Stop and Stopped must be usable now
		func() {
			defer func() {
				if p := recover(); p != nil {
					failed = "Stop() panicked right after Started() was closed"
				}
			}()
			if h.Stopped() == nil {
				failed = "Stopped() returned a nil channel right after Started() was closed"
				return
			}
			h.Stop()
		}()
	default:
		// Started() not yet closed at the gate: the repaired order
	}
	close(gowpGateRelease)
	r.Close()
	if failed != "" {
		t.Fatal(failed)
	}
}
