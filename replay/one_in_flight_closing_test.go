package gochannel

// Replay for obligation gochannel.(*subscriber).sendMessageToSubscriber#assert:previous-delivery-settled-before-the-next-one (C05):
// a subscription never has more than one unsettled message. The schedule needed (the subscription is being
// cancelled while one delivery is unsettled and another send task is waiting) is reached by plain repetition:
// the Go runtime picks among ready select cases at random.

import (
	"context"
	"testing"
	"time"

	"github.com/ThreeDotsLabs/watermill"
	"github.com/ThreeDotsLabs/watermill/message"
)

func TestReplayOneUnsettledMessagePerSubscriptionWhileClosing(t *testing.T) {
	violations := 0
	const rounds = 300
	for r := 0; r < rounds; r++ {
		ps := NewGoChannel(Config{}, watermill.NopLogger{})
		ctx, cancel := context.WithCancel(context.Background())
		ch, err := ps.Subscribe(ctx, "t")
		if err != nil {
			t.Fatal(err)
		}
		if err := ps.Publish("t", message.NewMessage("1", nil)); err != nil {
			t.Fatal(err)
		}
		first := <-ch // received and deliberately left unsettled
		if err := ps.Publish("t", message.NewMessage("2", nil)); err != nil {
			t.Fatal(err)
		}
		time.Sleep(200 * time.Microsecond) // let the second send task queue up behind the sending lock
		cancel()
		select {
		case second, ok := <-ch:
			if ok && second != nil {
				select {
				case <-first.Acked():
				case <-first.Nacked():
				default:
					violations++
				}
				second.Ack()
			}
		case <-time.After(200 * time.Millisecond):
		}
		first.Ack()
		ps.Close()
	}
	if violations > 0 {
		t.Fatalf("in %d of %d rounds a second message was delivered while the first one was still unsettled", violations, rounds)
	}
}
