package gochannel

// Replay for obligation gochannel.(*GoChannel).Close#guarded:persistedMessages:write-under-persistedMessagesLock (C07):
// Close resets g.persistedMessages without holding persistedMessagesLock. A Publish that passed its closed check
// before Close ran then writes into the reset table while it holds that lock: on the pinned tree the table was
// set to nil, so the write panicked ("assignment to entry in nil map"). The schedule "Close runs completely between
// Publish's closed check and its persisting step" is forced by one gate call that the replay inserts (in an
// overlay copy of pubsub.go, nothing is written to the repository) right after the closed check.

import (
	"fmt"
	"testing"
	"time"

	"github.com/ThreeDotsLabs/watermill/message"
)

var (
	gowpGateReached = make(chan struct{}, 16)
	gowpGateRelease = make(chan struct{})
)

func gowpGate(string) {
	gowpGateReached <- struct{}{}
	<-gowpGateRelease
}

func TestReplayPublishOverlappingCloseInPersistentMode(t *testing.T) {
	g := NewGoChannel(Config{Persistent: true}, nil)
	res := make(chan string, 1)
	go func() {
		defer func() {
			if p := recover(); p != nil {
				res <- fmt.Sprintf("Publish panicked: %v", p)
			}
		}()
		err := g.Publish("topic", message.NewMessage("1", nil))
		res <- fmt.Sprintf("returned %v", err)
	}()
	select {
	case <-gowpGateReached:
	case <-time.After(5 * time.Second):
		t.Skip("gate not reached: the closed check of Publish was moved; nothing to replay")
	}
	if err := g.Close(); err != nil {
		t.Fatal(err)
	}
	close(gowpGateRelease)
	select {
	case r := <-res:
		if len(r) > 16 && r[:16] == "Publish panicked" {
			t.Fatalf("a Publish overlapping Close must return (nil or an error), but %s", r)
		}
	case <-time.After(5 * time.Second):
		t.Fatal("Publish did not return after Close")
	}
}
