package middleware

// Replay for obligation middleware.Timeout$1$1#post:context-not-left-cancelled (C19):
// after the Timeout middleware returns, the message context must not be left cancelled.

import (
	"testing"
	"time"

	"github.com/ThreeDotsLabs/watermill/message"
)

func TestReplayTimeoutLeavesContextLive(t *testing.T) {
	msg := message.NewMessage("1", nil)
	calls := 0
	h := Timeout(time.Hour)(func(m *message.Message) ([]*message.Message, error) {
		calls++
		if m.Context().Err() != nil {
			t.Errorf("context already ended inside the call")
		}
		if _, ok := m.Context().Deadline(); !ok {
			t.Errorf("no deadline visible inside the call")
		}
		return nil, nil
	})
	if _, err := h(msg); err != nil {
		t.Fatal(err)
	}
	if err := msg.Context().Err(); err != nil {
		t.Fatalf("message context left cancelled after Timeout returned: %v", err)
	}
	// composition: Retry outside Timeout must still make MaxRetries retries
	attempts := 0
	failing := Timeout(time.Hour)(func(m *message.Message) ([]*message.Message, error) {
		attempts++
		return nil, errTest
	})
	r := Retry{MaxRetries: 3, InitialInterval: time.Microsecond}
	r.Middleware(failing)(message.NewMessage("2", nil))
	if attempts != 4 {
		t.Fatalf("Retry{MaxRetries:3} around Timeout made %d attempts, want 4", attempts)
	}
}

type replayErr string

func (e replayErr) Error() string { return string(e) }

var errTest = replayErr("fail")
