#!/usr/bin/env python3
"""Regenerates MANIFEST.json from claims.json (claimed properties) and na.json (reasons for the rest)."""
import json, subprocess
props=[json.loads(l)['id'] for l in open('/verif/properties.jsonl')]
claims=json.load(open('/verif/claims.json'))
na=json.load(open('/verif/na.json'))
hooks=subprocess.run(['git','-C','/repo','log','--format=%H %s'],capture_output=True,text=True).stdout.splitlines()
hook_commits=[l.split()[0] for l in hooks if l.split(' ',1)[1].startswith('verif hook:')]
checks=[]
for p in props:
    if p not in claims: continue
    c=claims[p]
    checks.append({
      "property_id":p,
      "quick_cmd":f"./bin/gowp check -property {p} -tier quick",
      "thorough_cmd":f"./bin/gowp check -property {p} -tier thorough",
      "evidence_file":f"/verif/evidence/{p}.json",
      "replay_cmd_template":"cat {path}",
      "engine":"gowp",
      "level_claimed":{"category":"proof","text":c.get("level_text",c["explanation"]),"design_ref":c.get("design_ref","DESIGN.md section 6, "+p)},
      "level_note":c.get("level_note","; ".join(c["assumptions"])+" NOT DECIDED: "+"; ".join(c["not_decided"])),
      "technique":c.get("technique","contract-based deductive verification: go/ssa symbolic execution of the real functions against //@ contracts, obligations discharged by z3/cvc5"),
    })
m={"version":1,
 "setup_cmd":"./setup.sh",
 "hooks":{"guard":"verif","enable":"contract files /repo/**/zz_contracts_verif.go carry //go:build verif and are comment-only; gowp reads them as text next to the type-checked sources; the compiler never sees them without -tags verif, and with the tag they add no code","baseline_off_cmd":"cd /repo && go test -vet=off -count=1 -timeout 25m ./...","source_commits":hook_commits,"add_only":True},
 "engines":[{"name":"gowp","path":"/verif/gowp","serves_properties":[c["property_id"] for c in checks],"kind_free_text":"contract-based deductive verifier for Go written for this task: go/ssa (NaiveForm) path-wise symbolic execution of the real functions in /repo against //@ contracts kept in tag-guarded comment-only files; loops cut at invariants, monitors/rely for concurrency, obligations discharged by z3 4.8.12 / z3 5.1.0 / cvc5 1.0"}],
 "checks":checks,
 "not_applicable":[{"property_id":p,"reason":na.get(p,"check not built yet; planned contracts in DESIGN.md section 6")} for p in props if p not in claims],
 "notes":"see DESIGN.md; obligations.lock.json pins the semantic obligations per property, known_findings.json lists recorded findings and fixes"}
json.dump(m,open('/verif/MANIFEST.json','w'),indent=1)
print("checks:",[c["property_id"] for c in checks])
