//go:build verif

// Assumed contracts of dependencies (never verified; every one is listed in each evidence file's trusted_base).

package stdlib

//@ assume-contract bytes.Equal
//@   pure
//@   nopanic
//@   ensures result <==> bytes(a) == bytes(b) [ASSUMED]

//@ assume-contract context.Background
//@   pure
//@   nopanic
//@   ensures result != nil && result == background() [ASSUMED]

//@ assume-contract github.com/pkg/errors.New
//@   pure
//@   nopanic
//@   ensures result != nil && errtext(result) == message [ASSUMED]

//@ assume-contract errors.New
//@   pure
//@   nopanic
//@   ensures result != nil [ASSUMED]

//@ assume-contract context.WithValue
//@   pure
//@   nopanic
//@   ensures result != nil && ctxval(result, key) == val [ASSUMED]
//@   ensures forall k any :: k != key ==> ctxval(result, k) == ctxval(parent, k) [ASSUMED]

//@ assume-contract iface:context.Context.Value
//@   pure
//@   nopanic
//@   ensures result == ctxval(recv, key) [ASSUMED]

//@ spec errcause(e error) error
//@ spec errunwrap(e error) error

//@ assume-contract github.com/pkg/errors.WithStack
//@   pure
//@   nopanic
//@   ensures err == nil ==> result == nil [ASSUMED]
//@   ensures err != nil ==> result != nil && errunwrap(result) == err [ASSUMED]

//@ assume-contract github.com/pkg/errors.Cause
//@   pure
//@   nopanic
//@   ensures result == errcause(err) && (err != nil ==> result != nil) [ASSUMED]

//@ assume-contract github.com/pkg/errors.Wrap
//@   pure
//@   nopanic
//@   ensures err == nil ==> result == nil [ASSUMED]
//@   ensures err != nil ==> result != nil && errunwrap(result) == err [ASSUMED]

//@ spec ctxparent(c context.Context) context.Context
//@ spec ctxtimeout(c context.Context) int

//@ assume-contract iface:context.Context.Done
//@   pure
//@   nopanic

//@ assume-contract time.After
//@   ghost label TA
//@   pure
//@   nopanic
//@   ensures result != nil [ASSUMED]

//@ assume-contract github.com/cenkalti/backoff/v3.NewExponentialBackOff
//@   pure
//@   nopanic
//@   ensures result != nil && fresh(result) [ASSUMED]

//@ assume-contract (*github.com/cenkalti/backoff/v3.ExponentialBackOff).Reset
//@   nopanic
//@   pure

//@ assume-contract (*github.com/cenkalti/backoff/v3.ExponentialBackOff).NextBackOff
//@   ghost label NB
//@   nopanic
//@   pure

//@ assume-contract (*github.com/cenkalti/backoff/v3.ExponentialBackOff).GetElapsedTime
//@   nopanic
//@   pure

// ---- package time (ASSUMED: pure functions of their arguments; Now() yields a new reading per call) ----

//@ spec nowval(k int) time.Time
//@ spec timeutc(t time.Time) time.Time
//@ spec timeadd(t time.Time, d int) time.Time
//@ spec timesub(t time.Time, u time.Time) int
//@ spec timefmt(t time.Time, layout string) string
//@ spec timeiszero(t time.Time) bool
//@ spec durstr(d int) string
//@ spec parsedur(s string) int
//@ spec parseok(s string) bool

//@ assume-contract time.Now
//@   ghost label NOW
//@   pure
//@   nopanic
//@   ensures result == nowval(ncalls(NOW)) [ASSUMED]

//@ assume-contract (time.Time).UTC
//@   pure
//@   nopanic
//@   ensures result == timeutc(t) [ASSUMED]

//@ assume-contract (time.Time).Add
//@   pure
//@   nopanic
//@   ensures result == timeadd(t, d) [ASSUMED]

//@ assume-contract (time.Time).Sub
//@   pure
//@   nopanic
//@   ensures result == timesub(t, u) [ASSUMED]

//@ assume-contract (time.Time).Format
//@   pure
//@   nopanic
//@   ensures result == timefmt(t, layout) [ASSUMED]

//@ assume-contract (time.Time).IsZero
//@   pure
//@   nopanic
//@   ensures result == timeiszero(t) [ASSUMED]

//@ assume-contract (time.Duration).String
//@   pure
//@   nopanic
//@   ensures result == durstr(d) && parseok(result) && parsedur(result) == d && result != "" [ASSUMED]

//@ assume-contract time.ParseDuration
//@   pure
//@   nopanic
//@   ensures result0 == parsedur(s) && ((result1 == nil) == parseok(s)) [ASSUMED]

//@ assume-contract github.com/pkg/errors.Wrapf
//@   pure
//@   nopanic
//@   ensures err == nil ==> result == nil [ASSUMED]
//@   ensures err != nil ==> result != nil && errunwrap(result) == err [ASSUMED]

//@ assume-contract github.com/pkg/errors.Errorf
//@   pure
//@   nopanic
//@   ensures result != nil [ASSUMED]

//@ assume-contract fmt.Errorf
//@   pure
//@   nopanic
//@   ensures result != nil [ASSUMED]

//@ assume-contract strconv.Atoi
//@   pure
//@   nopanic
//@   ensures ((result1 == nil) == atoiok(s)) && (result1 == nil ==> result0 == atoival(s)) [ASSUMED]

//@ assume-contract strconv.Itoa
//@   pure
//@   nopanic
//@   ensures result == itoa(i) && atoiok(result) && atoival(result) == i [ASSUMED]

//@ assume-contract iface:context.Context.Err
//@   pure
//@   nopanic
//@   ensures cancelled(recv) ==> result != nil [ASSUMED]

// ---- protobuf (ASSUMED: Marshal is a function of the message; Unmarshal fills the target from exactly the given bytes) ----

//@ spec protoenc(m any) string

//@ assume-contract google.golang.org/protobuf/proto.Marshal
//@   pure
//@   nopanic
//@   ensures result1 == nil ==> bytes(result0) == protoenc(m) [ASSUMED]

//@ assume-contract google.golang.org/protobuf/proto.Unmarshal
//@   ghost label PUM
//@   nopanic
//@   ensures result == nil ==> protodecoded(m) == bytes(b) [ASSUMED]
//@   modifies ghost(protodecoded)

//@ spec fqname(v any) string
//@ spec newuuid(k int) string

//@ assume-contract github.com/ThreeDotsLabs/watermill.NewUUID
//@   ghost label UUID
//@   pure
//@   nopanic
//@   ensures result == newuuid(ncalls(UUID)) && result != "" [ASSUMED]

//@ assume-contract errors.Join
//@   pure
//@   nopanic
//@   ensures (exists i int :: 0 <= i && i < len(errs) && errs[i] != nil) ==> result != nil [ASSUMED]

//@ spec gogoenc(m any) string

//@ assume-contract github.com/gogo/protobuf/proto.Marshal
//@   pure
//@   ensures result1 == nil ==> bytes(result0) == gogoenc(pb) [ASSUMED-may-panic]

//@ assume-contract github.com/gogo/protobuf/proto.Unmarshal
//@   ensures result == nil ==> protodecoded(pb) == bytes(buf) [ASSUMED-may-panic]
//@   modifies ghost(protodecoded)

// ---- prometheus (ASSUMED: With(labels) yields the series for the labels' current content; Observe/Inc add one sample) ----

//@ assume-contract (*github.com/prometheus/client_golang/prometheus.HistogramVec).With
//@   ghost label HVW
//@   pure
//@   nopanic
//@   ensures result != nil [ASSUMED]

//@ assume-contract (*github.com/prometheus/client_golang/prometheus.CounterVec).With
//@   ghost label CVW
//@   pure
//@   nopanic
//@   ensures result != nil [ASSUMED]

//@ assume-contract time.Since
//@   pure
//@   nopanic

//@ assume-contract (time.Duration).Seconds
//@   pure
//@   nopanic

//@ spec timebefore(t time.Time, u time.Time) bool

//@ assume-contract (time.Time).Before
//@   pure
//@   nopanic
//@   ensures result == timebefore(t, u) [ASSUMED]

//@ assume-contract time.NewTicker
//@   pure
//@   requires d > 0
//@   nopanic
//@   ensures result != nil && fresh(result) [ASSUMED]

// ---- hashing a prefix of a byte slice (C14: the built-in hashers of the deduplicator) ----
// A hash object is described by its kind, the byte slice it was fed from and how many of its leading bytes; the digest is
// an uninterpreted function of these three. Nothing is said about different slices with equal contents, nor about
// collisions. ASSUMED: a hash object is fed at most once (sound for code that creates, feeds once and sums).

//@ spec hashkind(h any) int
//@ spec fedsrc(h any) int
//@ spec fedcount(h any) int
//@ spec readersrc(r any) int
//@ spec readerlen(r any) int
//@ spec digest(kind int, src int, count int) string

//@ assume-contract crypto/sha256.New
//@   pure
//@   nopanic
//@   ensures result != nil && hashkind(result) == 256 [ASSUMED]

//@ assume-contract hash/adler32.New
//@   pure
//@   nopanic
//@   ensures result != nil && hashkind(result) == 32 [ASSUMED]

//@ assume-contract bytes.NewReader
//@   pure
//@   nopanic
//@   ensures result != nil && readersrc(result) == base(b) && readerlen(result) == len(b) [ASSUMED]

//@ assume-contract io.CopyN
//@   nopanic
//@   ensures hasdyntype(src, "*bytes.Reader") && n >= 0 ==> fedsrc(dst) == readersrc(unboxptr(src, "bytes.Reader")) && fedcount(dst) == (n < readerlen(unboxptr(src, "bytes.Reader")) ? n : readerlen(unboxptr(src, "bytes.Reader"))) [ASSUMED]
//@   modifies nothing

//@ assume-contract iface:hash.Hash.Sum
//@   nopanic
//@   ensures len(b) == 0 ==> bytesstr(result) == digest(hashkind(recv), fedsrc(recv), fedcount(recv)) [ASSUMED]
//@   modifies nothing

//@ assume-contract iface:hash.Hash32.Sum
//@   nopanic
//@   ensures len(b) == 0 ==> bytesstr(result) == digest(hashkind(recv), fedsrc(recv), fedcount(recv)) [ASSUMED]
//@   modifies nothing
