//go:build verif

// Assumed contracts of dependencies (never verified; every one is listed in each evidence file's trusted_base).

package stdlib

//@ assume-contract bytes.Equal
//@   pure
//@   nopanic
//@   ensures result <==> bytes(a) == bytes(b) [ASSUMED]

//@ assume-contract context.Background
//@   pure
//@   nopanic
//@   ensures result != nil [ASSUMED]

//@ assume-contract github.com/pkg/errors.New
//@   pure
//@   nopanic
//@   ensures result != nil [ASSUMED]

//@ assume-contract errors.New
//@   pure
//@   nopanic
//@   ensures result != nil [ASSUMED]

//@ assume-contract context.WithValue
//@   pure
//@   nopanic
//@   ensures result != nil [ASSUMED]
