//go:build verif

// Assumed contracts of dependencies (never verified; every one is listed in each evidence file's trusted_base).

package stdlib

//@ assume-contract bytes.Equal
//@   pure
//@   nopanic
//@   ensures result <==> bytes(a) == bytes(b) [ASSUMED]

//@ assume-contract context.Background
//@   pure
//@   nopanic
//@   ensures result != nil && result == background() [ASSUMED]

//@ assume-contract github.com/pkg/errors.New
//@   pure
//@   nopanic
//@   ensures result != nil [ASSUMED]

//@ assume-contract errors.New
//@   pure
//@   nopanic
//@   ensures result != nil [ASSUMED]

//@ assume-contract context.WithValue
//@   pure
//@   nopanic
//@   ensures result != nil && ctxval(result, key) == val [ASSUMED]
//@   ensures forall k any :: k != key ==> ctxval(result, k) == ctxval(parent, k) [ASSUMED]

//@ assume-contract iface:context.Context.Value
//@   pure
//@   nopanic
//@   ensures result == ctxval(recv, key) [ASSUMED]

//@ spec errcause(e error) error
//@ spec errunwrap(e error) error

//@ assume-contract github.com/pkg/errors.WithStack
//@   pure
//@   nopanic
//@   ensures err == nil ==> result == nil [ASSUMED]
//@   ensures err != nil ==> result != nil && errunwrap(result) == err [ASSUMED]

//@ assume-contract github.com/pkg/errors.Cause
//@   pure
//@   nopanic
//@   ensures result == errcause(err) && (err != nil ==> result != nil) [ASSUMED]

//@ assume-contract github.com/pkg/errors.Wrap
//@   pure
//@   nopanic
//@   ensures err == nil ==> result == nil [ASSUMED]
//@   ensures err != nil ==> result != nil && errunwrap(result) == err [ASSUMED]

//@ spec ctxparent(c context.Context) context.Context
//@ spec ctxtimeout(c context.Context) int

//@ assume-contract iface:context.Context.Done
//@   pure
//@   nopanic
//@   ensures result != nil [ASSUMED]

//@ assume-contract time.After
//@   ghost label TA
//@   pure
//@   nopanic
//@   ensures result != nil [ASSUMED]

//@ assume-contract github.com/cenkalti/backoff/v3.NewExponentialBackOff
//@   pure
//@   nopanic
//@   ensures result != nil && fresh(result) [ASSUMED]

//@ assume-contract (*github.com/cenkalti/backoff/v3.ExponentialBackOff).Reset
//@   nopanic
//@   pure

//@ assume-contract (*github.com/cenkalti/backoff/v3.ExponentialBackOff).NextBackOff
//@   ghost label NB
//@   nopanic
//@   pure

//@ assume-contract (*github.com/cenkalti/backoff/v3.ExponentialBackOff).GetElapsedTime
//@   nopanic
//@   pure

// ---- package time (ASSUMED: pure functions of their arguments; Now() yields a new reading per call) ----

//@ spec nowval(k int) time.Time
//@ spec timeutc(t time.Time) time.Time
//@ spec timeadd(t time.Time, d int) time.Time
//@ spec timesub(t time.Time, u time.Time) int
//@ spec timefmt(t time.Time, layout string) string
//@ spec timeiszero(t time.Time) bool
//@ spec durstr(d int) string
//@ spec parsedur(s string) int
//@ spec parseok(s string) bool

//@ assume-contract time.Now
//@   ghost label NOW
//@   pure
//@   nopanic
//@   ensures result == nowval(ncalls(NOW)) [ASSUMED]

//@ assume-contract (time.Time).UTC
//@   pure
//@   nopanic
//@   ensures result == timeutc(t) [ASSUMED]

//@ assume-contract (time.Time).Add
//@   pure
//@   nopanic
//@   ensures result == timeadd(t, d) [ASSUMED]

//@ assume-contract (time.Time).Sub
//@   pure
//@   nopanic
//@   ensures result == timesub(t, u) [ASSUMED]

//@ assume-contract (time.Time).Format
//@   pure
//@   nopanic
//@   ensures result == timefmt(t, layout) [ASSUMED]

//@ assume-contract (time.Time).IsZero
//@   pure
//@   nopanic
//@   ensures result == timeiszero(t) [ASSUMED]

//@ assume-contract (time.Duration).String
//@   pure
//@   nopanic
//@   ensures result == durstr(d) && parseok(result) && parsedur(result) == d && result != "" [ASSUMED]

//@ assume-contract time.ParseDuration
//@   pure
//@   nopanic
//@   ensures result0 == parsedur(s) && ((result1 == nil) == parseok(s)) [ASSUMED]
