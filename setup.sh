#!/bin/sh
# Build gowp offline from the cached x/tools v0.29.0.
set -e
cd "$(dirname "$0")/gowp"
export GOFLAGS=-mod=mod GOPROXY=off GOSUMDB=off GOTOOLCHAIN=local
go build -o ../bin/gowp .
