package main

import (
	"go/ast"
	"runtime/debug"
	"os"
	"fmt"
	"go/token"
	"go/types"
	"sort"
	"strings"

	"golang.org/x/tools/go/ssa"
)

type Verifier struct {
	P *Program
	C *Contracts

	entryHeld      map[string]bool
	entryHeldList  []*Held
	lockSnap       map[string]map[string]*Term
	noInterference bool
	recSpecs       map[string]*recSpecDef
	named          map[string]*types.Named
	sendFields     map[string]bool // "pkg.T.field" on which some Send instruction in the module operates
	closeFields    map[string][]string
	escapingChanFields map[string]string // chan field -> why its channels are not confined to the field
	chanFromGlobal     map[string][]string
	sweepDone      bool
	curExec        *Exec
	interfMemo     map[*ssa.Function]int
	sharedMaps     map[string]bool
	labelSiteTypes map[string]types.Type
	effMemo        map[*ssa.Function]map[string]bool
	syncMapSwept   bool
	setOnceSwept   bool
	wgSwept        bool
	expSet         map[string]bool
}

func NewVerifier(p *Program, c *Contracts) *Verifier {
	return &Verifier{P: p, C: c, entryHeld: map[string]bool{}, lockSnap: map[string]map[string]*Term{}, recSpecs: map[string]*recSpecDef{}, named: map[string]*types.Named{}}
}

func (v *Verifier) namedByName(n string) *types.Named {
	if t, ok := v.named[n]; ok {
		return t
	}
	parts := strings.SplitN(n, ".", 2)
	if len(parts) != 2 {
		return nil
	}
	lookup := func(pk *types.Package) *types.Named {
		if pk == nil {
			return nil
		}
		o := pk.Scope().Lookup(parts[1])
		if o == nil {
			return nil
		}
		nt, _ := types.Unalias(o.Type()).(*types.Named)
		return nt
	}
	nt := lookup(v.P.TPkgs[parts[0]])
	if nt == nil {
		for _, sp := range v.P.Prog.AllPackages() {
			if sp.Pkg.Name() == parts[0] {
				if nt = lookup(sp.Pkg); nt != nil {
					break
				}
			}
		}
	}
	if nt == nil {
		// a dependency that is only type-checked (or a repo package shadowing its name, e.g. pubsub/sync vs sync):
		// search the import graph of the repo packages
		seen := map[*types.Package]bool{}
		var find func(p *types.Package) *types.Named
		find = func(p *types.Package) *types.Named {
			if seen[p] {
				return nil
			}
			seen[p] = true
			if p.Name() == parts[0] {
				if r := lookup(p); r != nil {
					return r
				}
			}
			for _, im := range p.Imports() {
				if r := find(im); r != nil {
					return r
				}
			}
			return nil
		}
		var names []string
		for k := range v.P.TPkgs {
			names = append(names, k)
		}
		sort.Strings(names)
		for _, k := range names {
			if nt = find(v.P.TPkgs[k]); nt != nil {
				break
			}
		}
	}
	if nt != nil {
		v.named[n] = nt
	}
	return nt
}

func (v *Verifier) isShared(f string) bool {
	if f == "G$closed" || f == "G$clen" || f == "G$wg" || f == "G$ccap" || f == "G$smhas" || f == "G$smval" || strings.HasPrefix(f, "G$mark$") {
		return true
	}
	if strings.HasPrefix(f, "M$") {
		// contents of maps stored in monitor-guarded fields are owned by the monitor as well
		if v.sharedMaps == nil {
			v.sharedMaps = map[string]bool{}
			for tk, tc := range v.C.Types {
				root := v.namedByName(tk)
				if root == nil {
					continue
				}
				for _, m := range tc.Monitors {
					for fld := range m.Guards {
						if strings.HasPrefix(fld, "#") {
							continue
						}
						if mt, ok := fieldTypeAt(root, []string{fld}).Underlying().(*types.Map); ok {
							v.sharedMaps["M$"+typeName(mt.Key())+"$"+typeName(mt.Elem())+"$"] = true
						}
					}
				}
			}
		}
		for pre := range v.sharedMaps {
			if strings.HasPrefix(f, pre) {
				return true
			}
		}
		return false
	}
	if !strings.HasPrefix(f, "H$") {
		return false
	}
	parts := strings.SplitN(f[2:], "$", 2)
	if len(parts) != 2 {
		return false
	}
	tc := v.C.Types[parts[0]]
	if tc == nil {
		return false
	}
	field := parts[1]
	if i := strings.Index(field, "."); i >= 0 {
		field = field[:i]
	}
	for _, m := range tc.Monitors {
		if m.Guards[field] {
			return true
		}
	}
	return false
}

func (v *Verifier) entryHolds(tc *TypeContract, m *Monitor, base *Term) bool {
	for _, h := range v.entryHeldList {
		if h.TC == tc && h.Mon == m && h.Base != nil && same(h.Base, base) {
			return true
		}
	}
	return false
}

func (v *Verifier) entryBases(tc *TypeContract, m *Monitor) []*Term {
	var out []*Term
	for _, h := range v.entryHeldList {
		if h.TC == tc && h.Mon == m && h.Base != nil {
			out = append(out, h.Base)
		}
	}
	return out
}

// fieldSetByExportedMethod: some exported method of the type (or of a pointer to it) stores into the field.
func (v *Verifier) fieldSetByExportedMethod(ns *types.Named, field string) bool {
	key := typeName(ns) + "." + field
	if v.expSet == nil {
		v.expSet = map[string]bool{}
		for fn := range v.P.All {
			if fn.Signature == nil || fn.Signature.Recv() == nil || !ast.IsExported(fn.Name()) {
				continue
			}
			rn := namedStruct(pointee(fn.Signature.Recv().Type()))
			if rn == nil {
				if n, ok := fn.Signature.Recv().Type().(*types.Named); ok {
					rn = n
				}
			}
			if rn == nil {
				continue
			}
			for _, b := range fn.Blocks {
				for _, in := range b.Instrs {
					st, ok := in.(*ssa.Store)
					if !ok {
						continue
					}
					if fa, ok := st.Addr.(*ssa.FieldAddr); ok {
						if fs := namedStruct(pointee(fa.X.Type())); fs != nil && typeName(fs) == typeName(rn) {
							v.expSet[typeName(fs)+"."+fs.Underlying().(*types.Struct).Field(fa.Field).Name()] = true
						}
					}
				}
			}
		}
	}
	return v.expSet[key]
}

// underContract: the function (or the function a closure is nested in) has a contract.
func (v *Verifier) underContract(key string) bool {
	for {
		if _, ok := v.C.Funcs[key]; ok {
			return true
		}
		i := strings.LastIndex(key, "$")
		if i < 0 {
			return false
		}
		key = key[:i]
	}
}

// setOnceSweep: the set-once rule is only as good as its coverage: every store to a set-once field anywhere in the
// module must sit in a function under contract (where the store generates its obligation).
func (v *Verifier) setOnceSweep() {
	if v.setOnceSwept {
		return
	}
	v.setOnceSwept = true
	any := false
	for _, tc := range v.C.Types {
		if len(tc.SetOnce) > 0 {
			any = true
		}
	}
	if !any {
		return
	}
	for fn := range v.P.All {
		for _, b := range fn.Blocks {
			for _, in := range b.Instrs {
				s, ok := in.(*ssa.Store)
				if !ok {
					continue
				}
				fa, ok := s.Addr.(*ssa.FieldAddr)
				if !ok {
					continue
				}
				ns := namedStruct(pointee(fa.X.Type()))
				if ns == nil {
					continue
				}
				tc := v.C.Types[typeName(ns)]
				if tc == nil || !tc.SetOnce[ns.Underlying().(*types.Struct).Field(fa.Field).Name()] {
					continue
				}
				if !v.underContract(v.P.FuncKey(fn)) {
					unsupportedf("setonce rule: %s stores to %s.%s and is not under contract", fn, tc.Name, ns.Underlying().(*types.Struct).Field(fa.Field).Name())
				}
			}
		}
	}
}

// syncMapSweep: the sync.Map model assumes entries are only added. Any other mutator called from a package
// under contract invalidates it (reported as unsupported, i.e. undecided).
func (v *Verifier) syncMapSweep() {
	if v.syncMapSwept {
		return
	}
	v.syncMapSwept = true
	bad := map[string]bool{"Store": true, "Delete": true, "Swap": true, "CompareAndSwap": true, "CompareAndDelete": true, "LoadAndDelete": true, "Clear": true}
	for fn := range v.P.All {
		for _, b := range fn.Blocks {
			for _, in := range b.Instrs {
				var c *ssa.CallCommon
				switch i := in.(type) {
				case *ssa.Call:
					c = &i.Call
				case *ssa.Defer:
					c = &i.Call
				case *ssa.Go:
					c = &i.Call
				}
				if c == nil || c.IsInvoke() {
					continue
				}
				if cf := c.StaticCallee(); cf != nil && cf.Signature.Recv() != nil && bad[cf.Name()] && strings.HasPrefix(cf.String(), "(*sync.Map).") {
					unsupportedf("sync.Map model: %s calls %s (entries would no longer be add-only)", fn, cf)
				}
			}
		}
	}
}

// stableWg: wait groups declared stable by the function contract (ghost stable-wg EXPR).
func (v *Verifier) stableWg(st *State, x *Exec) []*Term {
	if x.FC == nil {
		return nil
	}
	var out []*Term
	for _, cl := range x.FC.Of("ghost") {
		if strings.HasPrefix(cl.Text, "stable-wg ") {
			e, err := ParseExpr(strings.TrimPrefix(cl.Text, "stable-wg "))
			if err != nil {
				panic(unsupported{err.Error()})
			}
			env := x.envAt(st, st.Frames[0])
			for n, p := range x.Entry.Params {
				env.Vars[n] = p
			}
			out = append(out, x.refOf(v.eval(env, e)))
		}
	}
	return out
}

// chanFieldKey: "pkg.T.field" if the channel value is loaded from a struct field.
func chanFieldKey(v ssa.Value) string {
	if u, ok := v.(*ssa.UnOp); ok && u.Op == token.MUL {
		if g, ok := u.X.(*ssa.Global); ok {
			return "global:" + g.Pkg.Pkg.Name() + "." + g.Name()
		}
		if a, ok := u.X.(*ssa.Alloc); ok {
			// naive SSA: a result/local variable; follow its single store
			var src ssa.Value
			n := 0
			for _, ref := range *a.Referrers() {
				if st, ok := ref.(*ssa.Store); ok && st.Addr == ssa.Value(a) {
					src = st.Val
					n++
				}
			}
			if n == 1 && src != nil {
				return chanFieldKey(src)
			}
			return ""
		}
		if fa, ok := u.X.(*ssa.FieldAddr); ok {
			if ns := namedStruct(pointee(fa.X.Type())); ns != nil {
				stt := ns.Underlying().(*types.Struct)
				return typeName(ns) + "." + stt.Field(fa.Field).Name()
			}
		}
	}
	if c, ok := v.(*ssa.ChangeType); ok {
		return chanFieldKey(c.X)
	}
	if c, ok := v.(*ssa.Call); ok {
		// a getter that returns a channel field (e.g. (*Message).Acked): the field's key
		if sc := c.Call.StaticCallee(); sc != nil && sc.Blocks != nil {
			key := ""
			for _, b := range sc.Blocks {
				if b == sc.Recover {
					continue
				}
				for _, in := range b.Instrs {
					if r, ok := in.(*ssa.Return); ok && len(r.Results) == 1 {
						k := chanFieldKey(r.Results[0])
						if k == "" || (key != "" && key != k) {
							return ""
						}
						key = k
					}
				}
			}
			return key
		}
	}
	return ""
}

func (v *Verifier) sweep() {
	if v.sweepDone {
		return
	}
	v.sweepDone = true
	v.sendFields = map[string]bool{}
	v.closeFields = map[string][]string{}
	v.escapingChanFields = map[string]string{}
	v.chanFromGlobal = map[string][]string{}
	defer func() {
		for k, gs := range v.chanFromGlobal {
			for _, g := range gs {
				if v.sendFields[g] {
					v.escapingChanFields[k] = "assigned from " + g + " on which the module sends"
				}
			}
		}
	}()
	for fn := range v.P.All {
		if fn.Package() == nil || fn.Package().Pkg == nil || !strings.HasPrefix(fn.Package().Pkg.Path(), modulePath) {
			continue
		}
		for _, b := range fn.Blocks {
			for _, in := range b.Instrs {
				// channel fields: do the channels stored in the field stay inside it?
				if st, ok := in.(*ssa.Store); ok {
					if fa, ok := st.Addr.(*ssa.FieldAddr); ok {
						if ns := namedStruct(pointee(fa.X.Type())); ns != nil {
							stt := ns.Underlying().(*types.Struct)
							f := stt.Field(fa.Field)
							if _, isChan := f.Type().Underlying().(*types.Chan); isChan {
								k := typeName(ns) + "." + f.Name()
								switch val := st.Val.(type) {
								case *ssa.MakeChan:
								case *ssa.Const:
									_ = val
								case *ssa.UnOp:
									// a package-level channel (e.g. the pre-closed closedchan): acceptable when the
									// module never sends on it; recorded for the final pass
									if g, ok := val.X.(*ssa.Global); ok && val.Op == token.MUL {
										v.chanFromGlobal[k] = append(v.chanFromGlobal[k], "global:"+g.Pkg.Pkg.Name()+"."+g.Name())
									} else {
										v.escapingChanFields[k] = "assigned from " + v.P.Pos(st.Pos())
									}
								default:
									v.escapingChanFields[k] = "assigned from " + v.P.Pos(st.Pos())
								}
							}
						}
					}
				}
				if u, ok := in.(*ssa.UnOp); ok && u.Op == token.MUL {
					if k := chanFieldKey(u); k != "" {
						for _, ref := range *u.Referrers() {
							okUse := false
							switch r := ref.(type) {
							case *ssa.Send:
								okUse = r.Chan == ssa.Value(u)
							case *ssa.UnOp:
								okUse = r.Op == token.ARROW
							case *ssa.Select:
								okUse = true
							case *ssa.Call:
								if bi, isB := r.Call.Value.(*ssa.Builtin); isB && (bi.Name() == "close" || bi.Name() == "len" || bi.Name() == "cap") {
									okUse = true
								}
							case *ssa.BinOp:
								okUse = true // comparison with nil
							case *ssa.DebugRef:
								okUse = true
							case *ssa.ChangeType:
								// handed out as a receive-only channel: nobody else can send on or close it
								if ct, ok := r.Type().Underlying().(*types.Chan); ok && ct.Dir() == types.RecvOnly {
									okUse = true
								}
							case *ssa.Store:
								// copied into a local variable (naive SSA form): fine unless it is the stored-to address
								if _, isAlloc := r.Addr.(*ssa.Alloc); isAlloc && r.Val == ssa.Value(u) {
									okUse = false
								}
							}
							if rt, isRet := ref.(*ssa.Return); isRet {
								// returned as a receive-only channel: the caller can neither send on it nor close it
								for ri, rv := range rt.Results {
									if rv == ssa.Value(u) {
										if ct, ok := fn.Signature.Results().At(ri).Type().Underlying().(*types.Chan); ok && ct.Dir() == types.RecvOnly {
											okUse = true
										}
									}
								}
							}
							if d, isDefer := ref.(*ssa.Defer); isDefer {
								if bi, isB := d.Call.Value.(*ssa.Builtin); isB && bi.Name() == "close" {
									okUse = true
								}
							}
							if !okUse {
								v.escapingChanFields[k] = fmt.Sprintf("value flows elsewhere at %s (%T)", v.P.Pos(ref.Pos()), ref)
							}
						}
					}
				}
				switch i := in.(type) {
				case *ssa.Send:
					if k := chanFieldKey(i.Chan); k != "" {
						v.sendFields[k] = true
					} else {
						v.sendFields["?"+v.P.FuncKey(fn)] = true
					}
				case *ssa.Select:
					for _, s := range i.States {
						if s.Dir == types.SendOnly {
							if k := chanFieldKey(s.Chan); k != "" {
								v.sendFields[k] = true
							}
						}
					}
				case *ssa.Call:
					if bi, ok := i.Call.Value.(*ssa.Builtin); ok && bi.Name() == "close" {
						if k := chanFieldKey(i.Call.Args[0]); k != "" {
							v.closeFields[k] = append(v.closeFields[k], v.P.FuncKey(fn))
						}
					}
				}
			}
		}
	}
}

// noSendChan: true when the module contains no send on the struct field the channel is loaded from
// (close-only signalling channel; unexported field => closed world), or the function contract says so.
func (v *Verifier) noSendChan(x *Exec, ap string) bool {
	v.sweep()
	if x.FC != nil {
		for _, cl := range x.FC.Of("ghost") {
			if cl.Text == "nosend "+ap {
				x.note("ASSUMED: nobody sends on " + ap + " (close-only channel)")
				return true
			}
		}
	}
	if k, ok := x.chanKeys[ap]; ok && k != "" {
		if _, inModule := v.P.TPkgs[strings.SplitN(k, ".", 2)[0]]; inModule && !v.sendFields[k] && v.escapingChanFields[k] == "" {
			x.note("frame sweep: channels of field " + k + " are created by the module, never leave the field, and no send instruction operates on it (close-only channel)")
			return true
		}
	}
	return false
}

type FuncResult struct {
	Key         string
	Pos         string
	Instrs      int
	Obls        []*Obligation
	Paths       int
	Exits       int
	Unsupported string
	Notes       []string
	Contract    *FuncContract
}

func (v *Verifier) VerifyFunc(key string) (res *FuncResult) {
	fn := v.P.Funcs[key]
	fc := v.C.Funcs[key]
	res = &FuncResult{Key: key, Contract: fc}
	if fn == nil {
		res.Unsupported = "function not found in the current tree"
		return
	}
	if fc == nil {
		res.Unsupported = "no contract"
		return
	}
	if fc.Has("trusted") {
		res.Notes = append(res.Notes, "TRUSTED contract (body not verified): "+key)
		res.Pos = v.P.Pos(fn.Pos())
		return
	}
	res.Pos = v.P.Pos(fn.Pos())
	for _, b := range fn.Blocks {
		res.Instrs += len(b.Instrs)
	}
	floatMode = false
	for _, cl := range fc.Of("arith") {
		if strings.TrimSpace(cl.Text) == "bv64" {
			floatMode = true
		}
	}
	x := &Exec{V: v, Fn: fn, FC: fc, MaxPaths: 4000, cellOf: map[*ssa.Alloc]*Cell{}, Notes: map[string]bool{}, iterIDs: map[*ssa.Range]int{}, calleeTypes: map[string]types.Type{}, chanKeys: map[string]string{}}
	v.curExec = x
	objInvHook = x.assumeObjInvs
	v.entryHeld = map[string]bool{}
	v.entryHeldList = nil
	defer func() {
		if r := recover(); r != nil {
			if u, ok := r.(unsupported); ok {
				if os.Getenv("GOWP_STACK") != "" {
					fmt.Fprintf(os.Stderr, "unsupported: %s\n%s\n", u.msg, debug.Stack())
				}
				res.Unsupported = u.msg
				res.Obls = x.Obls
				res.Paths = x.Paths
				for n := range x.Notes {
					res.Notes = append(res.Notes, n)
				}
				sort.Strings(res.Notes)
				return
			}
			if os.Getenv("GOWP_STACK") != "" {
				panic(r)
			}
			// the encoder refused a term (ill-sorted select/store, a contract expression that no longer fits the
			// code's types, ...): the function's obligations cannot be generated, which is reported like any other
			// function that left the subset - never as a pass
			msg := fmt.Sprint(r)
			if len(msg) > 300 {
				msg = msg[:300] + "..."
			}
			res.Unsupported = "the contract no longer fits the code (encoder: " + msg + ")"
			res.Obls = nil
			res.Paths = x.Paths
			return
		}
	}()
	x.ghostLetNames = map[string]bool{}
	x.ghostLetTypes = map[string]types.Type{}
	for _, cl := range fc.Of("ghost") {
		if strings.HasPrefix(cl.Text, "let ") {
			n := strings.TrimSpace(strings.SplitN(strings.TrimPrefix(cl.Text, "let "), "=", 2)[0])
			x.ghostLetNames[n] = true
		}
	}
	x.prescan()
	v.setOnceSweep()
	st := &State{Cells: map[*Cell]*Val{}, Heap: map[string]*Term{}, Held: map[string]*Held{}, FreshRefs: map[string]bool{}, Closures: map[string]*Closure{}, CallCount: map[string]int{}}
	fr := &Frame{Fn: fn, Regs: map[ssa.Value]*Val{}, Blk: fn.Blocks[0], LoopSeen: map[*ssa.BasicBlock]bool{}}
	st.Frames = []*Frame{fr}
	x.Entry = &EntryInfo{Params: map[string]*Val{}, OldCells: map[*Cell]*Val{}, FreeCells: map[string]*Cell{}, FreeVals: map[string]*Val{}}
	for _, p := range fn.Params {
		pv := freshVal(p.Type(), "p$"+p.Name())
		st.assumeValAllocated(pv)
		fr.Regs[p] = pv
		x.Entry.Params[p.Name()] = pv
	}
	for _, fv := range fn.FreeVars {
		et := pointee(fv.Type())
		if et != nil && namedStruct(et) == nil {
			if _, isArr := et.Underlying().(*types.Array); !isArr {
				c := x.newCell(et, fv.Name(), nil)
				cv := freshVal(et, "fv$"+fv.Name())
				st.assumeValAllocated(cv)
				st.Cells[c] = cv
				x.Entry.FreeCells[fv.Name()] = c
				x.Entry.OldCells[c] = cv
				fr.FreeVars = append(fr.FreeVars, &Val{T: fv.Type(), Cell: c})
				continue
			}
		}
		pv := freshVal(fv.Type(), "fv$"+fv.Name())
		st.assumeValAllocated(pv)
		if pv.Term != nil {
			st.Assume(Neq(pv.Term, IntLit(0)))
		}
		x.Entry.FreeVals[fv.Name()] = pv
		fr.FreeVars = append(fr.FreeVars, pv)
	}
	env := x.envAt(st, fr)
	for n, p := range x.Entry.Params {
		env.Vars[n] = p
	}
	for n, c := range x.Entry.FreeCells {
		env.Vars[n] = st.Cells[c]
	}
	for i, fv := range fn.FreeVars {
		if fr.FreeVars[i].Cell == nil {
			// captured struct variable: name denotes the object
			env.Vars[fv.Name()] = fr.FreeVars[i]
		}
	}
	for _, g := range v.C.Globals[fn.Package().Pkg.Name()] {
		if fn.Name() == "init" || strings.HasPrefix(fn.Name(), "init#") {
			break
		}
		st.Assume(v.evalBool(env, g.E))
	}
	for _, cl := range fc.Of("requires") {
		st.Assume(v.evalBool(env, cl.E))
	}
	for _, cl := range fc.Of("assume") {
		x.note("ASSUMED in contract of " + key + ": " + cl.Text)
		st.Assume(v.evalBool(env, cl.E))
	}
	if fn.Synthetic == "package initializer" {
		// the initializer body runs once: its guard is false at entry
		if g, ok := fn.Pkg.Members["init$guard"].(*ssa.Global); ok {
			st.heapGet(globKey(g, ""), SBool)
			st.Heap[globKey(g, "")] = False
		}
	}
	// locks held at entry (thread entry after a hand-off, or helper called under a lock)
	for _, cl := range fc.Of("ghost") {
		if strings.HasPrefix(cl.Text, "holds ") {
			e, err := ParseExpr(strings.TrimPrefix(cl.Text, "holds "))
			if err != nil {
				panic(unsupported{err.Error()})
			}
			lv := v.evalLockRef(env, x, st, e)
			id := x.refOf(lv).String()
			tc, mon, base, root := x.monitorOf(st, lv)
			h := &Held{ID: id, Base: base, TC: tc, Mon: mon, Root: root, Class: x.classOfText(env, strings.TrimPrefix(cl.Text, "holds "), fc)}
			st.Held[id] = h
			v.entryHeld[id] = true
			v.entryHeldList = append(v.entryHeldList, h)
			if tc != nil {
				ienv := &Env{V: v, X: x, St: st, Vars: map[string]*Val{}, Pkg: v.P.TPkgs[tc.Pkg]}
				ienv.Vars[tc.Self] = &Val{T: types.NewPointer(root), Term: base}
				for _, inv := range tc.Invariants {
					if invMon(inv) != "" && invMon(inv) != mon.Lock {
						continue
					}
					st.Assume(v.evalBool(ienv, inv.E))
				}
				st.LockSnaps = append(st.LockSnaps, lockSnap{id, copyHeap(st.Heap), 0})
			}
		}
	}
	for _, cl := range fc.Of("ghost") {
		if strings.HasPrefix(cl.Text, "borrows ") {
			e, err := ParseExpr(strings.TrimPrefix(cl.Text, "borrows "))
			if err != nil {
				panic(unsupported{err.Error()})
			}
			lv := v.evalLockRef(env, x, st, e)
			id := x.refOf(lv).String()
			tc, mon, base, root := x.monitorOf(st, lv)
			st.Held[id] = &Held{ID: id, Base: base, TC: tc, Mon: mon, Root: root, Borrowed: true}
			x.note("borrowed lock " + cl.Text[8:] + ": held by the goroutine that started this one until that function returns; what this goroutine establishes is used only before that")
		}
		if strings.HasPrefix(cl.Text, "owns ") {
			// a channel (or other object) only this thread may close / mutate: exempt from interference
			e, err := ParseExpr(strings.TrimPrefix(cl.Text, "owns "))
			if err != nil {
				panic(unsupported{err.Error()})
			}
			ov := v.eval(env, e)
			if ov.Term != nil {
				st.Owned = append(st.Owned, ov.Term)
				x.addWaitOblig(st, waitOblig{"chan", ov.Term, x.classOfText(env, cl.Text[5:], fc), "the close of " + cl.Text[5:]})
				x.note("ASSUMED ownership: only this goroutine closes " + cl.Text[5:] + " (handed out receive-only)")
			}
		}
		if strings.HasPrefix(cl.Text, "obliged ") && !strings.Contains(cl.Text, " @") {
			// a channel this function has to close before it blocks on anything at or below the channel's class
			e, err := ParseExpr(strings.TrimPrefix(cl.Text, "obliged "))
			if err != nil {
				panic(unsupported{err.Error()})
			}
			if ov := v.eval(env, e); ov.Term != nil {
				x.addWaitOblig(st, waitOblig{"chan", ov.Term, x.classOfText(env, cl.Text[8:], fc), "the close of " + cl.Text[8:]})
			}
		}
		if strings.HasPrefix(cl.Text, "consumes-wg ") {
			wgText, subjText := splitConsumes(cl.Text)
			e, err := ParseExpr(wgText)
			if err != nil {
				panic(unsupported{err.Error()})
			}
			r := x.refOf(v.syncRef(env, e))
			x.addWaitOblig(st, waitOblig{"wg", r, x.classOfText(env, wgText, fc), "a token of " + wgText})
			if subjText != "" {
				se, err := ParseExpr(subjText)
				if err != nil {
					panic(unsupported{err.Error()})
				}
				sv := v.eval(env, se)
				st.TokenSubject = map[string]*Term{r.Key(): sv.Term}
				pend := st.heapGet("G$mark$wgpending", ArrSort(SInt, ArrSort(SInt, SBool)))
				st.Assume(Select(Select(pend, r), sv.Term))
			}
			mine := st.ghostArr("wgmine", SInt)
			st.setGhostArr("wgmine", Store(mine, r, IntLit(1)))
			st.Assume(Ge(Select(st.ghostArr("wg", SInt), r), IntLit(1)))
		}
	}
	x.Entry.OldHeap = copyHeap(st.Heap)
	// cover: the precondition must be satisfiable
	x.Obls = append(x.Obls, &Obligation{Name: key + "#cover:requires", Kind: "cover", Func: key, Assumes: st.PC[:len(st.PC):len(st.PC)], Goal: False, Pos: res.Pos})
	x.run(st)
	res.Obls = x.Obls
	res.Paths = x.Paths
	res.Exits = x.Exits
	for n := range x.Notes {
		res.Notes = append(res.Notes, n)
	}
	sort.Strings(res.Notes)
	return
}

// evalLockRef evaluates a lock expression (x.mu where mu is a value field yields its address).
func (v *Verifier) evalLockRef(env *Env, x *Exec, st *State, e *Expr) *Val {
	if e.Kind == "sel" {
		base := v.eval(env, e.Args[0])
		if base.Term != nil && pointee(base.T) != nil {
			if ns := namedStruct(pointee(base.T)); ns != nil {
				ft := fieldTypeAt(ns, []string{e.Op})
				if _, isPtr := ft.Underlying().(*types.Pointer); !isPtr {
					return &Val{T: types.NewPointer(ft), FP: &FieldPtr{Base: base.Term, Root: ns, Path: []string{e.Op}, T: ft}}
				}
			}
		}
	}
	return v.eval(env, e)
}

// prescan records the types of labelled callee arguments/results and channel field keys.
func (x *Exec) prescan() { x.prescanFn(x.Fn, 0, map[*ssa.Function]bool{}) }

func (x *Exec) prescanFn(fn *ssa.Function, depth int, seen map[*ssa.Function]bool) {
	if seen[fn] || depth > 4 {
		return
	}
	seen[fn] = true
	for _, af := range fn.AnonFuncs {
		x.prescanFn(af, depth+1, seen)
	}
	for _, b := range fn.Blocks {
		for _, in := range b.Instrs {
			var c *ssa.CallCommon
			switch i := in.(type) {
			case *ssa.Call:
				c = &i.Call
			case *ssa.Defer:
				c = &i.Call
			case *ssa.Go:
				c = &i.Call
			case *ssa.UnOp:
				if i.Op == token.ARROW {
					x.chanKeys[accessPath(i.X)] = chanFieldKey(i.X)
				}
			case *ssa.Select:
				for _, s := range i.States {
					x.chanKeys[accessPath(s.Chan)] = chanFieldKey(s.Chan)
				}
			case *ssa.Send:
				x.chanKeys[accessPath(i.Chan)] = chanFieldKey(i.Chan)
			}
			if c == nil {
				continue
			}
			if sc := c.StaticCallee(); sc != nil && sc.Blocks != nil && sc.Package() != nil && strings.HasPrefix(sc.Package().Pkg.Path(), modulePath) {
				if _, has := x.V.C.Funcs[x.V.P.FuncKey(sc)]; !has {
					x.prescanFn(sc, depth+1, seen)
				}
			}
			method := ""
			if c.IsInvoke() {
				method = c.Method.Name()
			}
			cl := x.matchCallee(c, method)
			if cl == nil {
				continue
			}
			sig := c.Signature()
			off := 0
			for k, a := range c.Args {
				x.calleeTypes[fmt.Sprintf("arg$%s$%d", cl.Label, k+off)] = a.Type()
			}
			for k := 0; k < sig.Results().Len(); k++ {
				x.calleeTypes[fmt.Sprintf("ret$%s$%d", cl.Label, k)] = sig.Results().At(k).Type()
			}
		}
	}
}

// mayInterfere: does the callee (transitively, through statically bound calls) contain a point at which
// other threads' effects become visible to it: lock, channel operation, wait, go, or a call to unknown code?
func (v *Verifier) mayInterfere(fn *ssa.Function) bool {
	if v.interfMemo == nil {
		v.interfMemo = map[*ssa.Function]int{}
	}
	return v.mayInterfereRec(fn, 0)
}

func (v *Verifier) mayInterfereRec(fn *ssa.Function, depth int) bool {
	if r, ok := v.interfMemo[fn]; ok {
		return r != 2
	}
	if fn.Blocks == nil {
		full := fn.String()
		if strings.HasPrefix(full, "(*sync.") || strings.HasPrefix(full, "sync.") {
			return true
		}
		return false // external: assumed effect-free unless modelled
	}
	if depth > 5 {
		return true
	}
	v.interfMemo[fn] = 1 // in progress: assume yes for recursion
	res := false
	for _, b := range fn.Blocks {
		for _, in := range b.Instrs {
			switch i := in.(type) {
			case *ssa.Send, *ssa.Select, *ssa.Go:
				res = true
			case *ssa.UnOp:
				if i.Op == token.ARROW {
					res = true
				}
			case *ssa.Call, *ssa.Defer:
				var c *ssa.CallCommon
				if ci, ok := in.(*ssa.Call); ok {
					c = &ci.Call
				} else {
					c = &in.(*ssa.Defer).Call
				}
				if _, isB := c.Value.(*ssa.Builtin); isB {
					continue
				}
				if c.IsInvoke() {
					if !isLoggerType(c.Value.Type()) && !(c.Method.Name() == "Error" && typeName(c.Value.Type()) == "error") {
						if _, ok := v.C.Assumed["iface:"+typeName(c.Value.Type())+"."+c.Method.Name()]; !ok {
							res = true
						}
					}
					continue
				}
				sc := c.StaticCallee()
				if sc == nil {
					res = true
					continue
				}
				if _, isClosure := c.Value.(*ssa.MakeClosure); isClosure || sc.Parent() != nil {
					if v.mayInterfereRec(sc, depth+1) {
						res = true
					}
					continue
				}
				if v.mayInterfereRec(sc, depth+1) {
					res = true
				}
			}
		}
	}
	if res {
		v.interfMemo[fn] = 3
	} else {
		v.interfMemo[fn] = 2
	}
	return res
}

// ghostEffects: the ghost call counters a function's body may advance (labels of unknown callees
// declared in its own contract, counters of statically bound callees with contracts), transitively.
func (v *Verifier) ghostEffects(fn *ssa.Function) map[string]bool {
	if v.effMemo == nil {
		v.effMemo = map[*ssa.Function]map[string]bool{}
	}
	if m, ok := v.effMemo[fn]; ok {
		return m
	}
	out := map[string]bool{}
	v.effMemo[fn] = out // recursion guard
	if fn.Blocks == nil {
		return out
	}
	fc := v.C.Funcs[v.P.FuncKey(fn)]
	var scan func(f *ssa.Function, depth int)
	scan = func(f *ssa.Function, depth int) {
		for _, af := range f.AnonFuncs {
			scan(af, depth+1)
		}
		for _, b := range f.Blocks {
			for _, in := range b.Instrs {
				var c *ssa.CallCommon
				switch i := in.(type) {
				case *ssa.Call:
					c = &i.Call
				case *ssa.Defer:
					c = &i.Call
				case *ssa.Go:
					c = &i.Call
				}
				if c == nil {
					continue
				}
				if _, isB := c.Value.(*ssa.Builtin); isB {
					continue
				}
				if _, isGo := in.(*ssa.Go); isGo {
					// the spawn log of the started function advances
					if gsc := c.StaticCallee(); gsc != nil && !c.IsInvoke() && gsc.Package() != nil && os.Getenv("GOWP_TEST_NO_SPAWN_EFFECT") == "" {
						out["spawned$"+gsc.RelString(gsc.Package().Pkg)] = true
					}
				}
				sc := c.StaticCallee()
				if sc == nil || c.IsInvoke() {
					// unknown callee: logged only if the contract in force labels it
					if fc != nil {
						method := ""
						if c.IsInvoke() {
							method = c.Method.Name()
						}
						ap := accessPath(c.Value)
						for _, cl := range fc.Of("callee") {
							if (method != "" && (cl.Site == ap+"."+method || cl.Site == "*."+method)) || (method == "" && cl.Site == ap) {
								out["calls$"+cl.Label] = true
							}
						}
					}
					continue
				}
				key := v.P.FuncKey(sc)
				cfc, ok := v.C.Funcs[key]
				name := ""
				if ok {
					name = sc.RelString(sc.Package().Pkg)
				} else if cfc, ok = v.C.Assumed[sc.String()]; ok {
					name = sc.String()
				}
				if ok && !(cfc.Has("inline") && sc.Blocks != nil) {
					lbl := name
					for _, cl := range cfc.Of("ghost") {
						if strings.HasPrefix(cl.Text, "label ") {
							lbl = strings.TrimSpace(strings.TrimPrefix(cl.Text, "label "))
						}
					}
					out["ncalls$"+lbl] = true
					for k := range v.ghostEffects(sc) {
						out[k] = true
					}
					continue
				}
				if sc.Blocks != nil && depth < 5 {
					// inlined: its sites are matched against the caller's contract
					scan(sc, depth+1)
				}
			}
		}
	}
	scan(fn, 0)
	return out
}

// neverClosedField: the module contains no close() on the struct field the channel is loaded from.
func (v *Verifier) neverClosedField(x *Exec, ap string) bool {
	v.sweep()
	if k, ok := x.chanKeys[ap]; ok && k != "" {
		if _, inModule := v.P.TPkgs[strings.SplitN(k, ".", 2)[0]]; inModule && len(v.closeFields[k]) == 0 && v.escapingChanFields[k] == "" {
			x.note("frame sweep: channels of field " + k + " are created by the module, never leave the field, and no close() operates on it (never closed)")
			return true
		}
	}
	return false
}

// labelType: type of the idx-th argument (kind "sarg", receiver first) or result (kind "sret") of the
// statically bound function whose contract carries `ghost label L`.
func (v *Verifier) labelType(label, kind string, idx int) types.Type {
	find := func(fcs map[string]*FuncContract, assumed bool) *types.Signature {
		for key, fc := range fcs {
			for _, cl := range fc.Of("ghost") {
				if cl.Text == "label "+label {
					if !assumed {
						if fn := v.P.Funcs[key]; fn != nil {
							return fn.Signature
						}
					} else {
						for fn := range v.P.All {
							if fn.String() == key {
								return fn.Signature
							}
						}
					}
				}
			}
		}
		return nil
	}
	sig := find(v.C.Funcs, false)
	if sig == nil {
		sig = find(v.C.Assumed, true)
	}
	if sig == nil {
		return nil
	}
	if kind == "sret" {
		if idx < sig.Results().Len() {
			return sig.Results().At(idx).Type()
		}
		return nil
	}
	if r := sig.Recv(); r != nil {
		if idx == 0 {
			return r.Type()
		}
		idx--
	}
	if idx < sig.Params().Len() {
		return sig.Params().At(idx).Type()
	}
	return nil
}
