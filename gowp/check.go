package main

// gowp check -property Cxx [-tier quick|thorough]: the registered check of one property.

import (
	"sync"
	"os/exec"
	"encoding/json"
	"flag"
	"fmt"
	"os"
	"path/filepath"
	"regexp"
	"sort"
	"strconv"
	"strings"
	"time"
)

type Claim struct {
	Functions   []string `json:"functions"`
	Bounded     []string `json:"bounded,omitempty"`
	NotDecided  []string `json:"not_decided"`
	Assumptions []string `json:"assumptions"`
	Explanation string   `json:"explanation"`
	Lemmas      []string `json:"lemmas,omitempty"`
	Replay      map[string]string `json:"replay,omitempty"` // obligation-name prefix -> replay template
	SkipKinds   []string `json:"skip_kinds,omitempty"` // obligation kinds of these functions that belong to another property's claim
	Extra       map[string][]string `json:"extra,omitempty"` // further functions of which only obligations of the listed kinds belong to this claim
}

type KnownFinding struct {
	Property   string `json:"property"`
	Obligation string `json:"obligation"` // obligation name (prefix match on the group name)
	What       string `json:"what"`
	Status     string `json:"status"` // known | fixed
	Commit     string `json:"commit,omitempty"`
	Witness    string `json:"witness,omitempty"`
}

type Group struct {
	Name      string
	Kind      string
	Func      string
	Instances []*Obligation
	Status    string // discharged | failed | unknown
	Backend   string
	Time      float64
	Clause    string
	Pos       string
}

func groupObls(obls []*Obligation) []*Group {
	m := map[string]*Group{}
	var order []string
	for _, o := range obls {
		g, ok := m[o.Name]
		if !ok {
			g = &Group{Name: o.Name, Kind: o.Kind, Func: o.Func, Status: "discharged", Clause: o.Clause, Pos: o.Pos}
			m[o.Name] = g
			order = append(order, o.Name)
		}
		g.Instances = append(g.Instances, o)
		g.Time += o.Time
		switch o.Status {
		case "discharged":
			if g.Backend == "" || g.Backend == "syntactic" {
				g.Backend = o.Backend
			}
		case "failed":
			g.Status = "failed"
			g.Backend = o.Backend
		default:
			if g.Status != "failed" {
				g.Status = "unknown"
				g.Backend = o.Backend
			}
		}
	}
	var out []*Group
	for _, n := range order {
		out = append(out, m[n])
	}
	return out
}

func readJSON(path string, v interface{}) error {
	b, err := os.ReadFile(path)
	if err != nil {
		return err
	}
	return json.Unmarshal(b, v)
}

func cmdCheck(args []string) {
	fs := flag.NewFlagSet("check", flag.ExitOnError)
	prop := fs.String("property", "", "property id")
	tier := fs.String("tier", envOr("VERIF_TIER", "quick"), "quick|thorough")
	repo := fs.String("repo", envOr("VERIF_REPO", "/repo"), "repository")
	relock := fs.Bool("relock", false, "rewrite the lock entry of this property from this run (deliberate)")
	fs.Parse(args)
	vdir := envOr("VERIF_DIR", "/verif")
	seed, _ := strconv.Atoi(envOr("VERIF_SEED", "0"))
	t0 := time.Now()
	internal := func(f string, a ...interface{}) {
		fmt.Fprintf(os.Stderr, "gowp: internal error: "+f+"\n", a...)
		os.Exit(2)
	}
	claims := map[string]*Claim{}
	if err := readJSON(filepath.Join(vdir, "claims.json"), &claims); err != nil {
		internal("claims.json: %v", err)
	}
	cl := claims[*prop]
	if cl == nil {
		internal("property %s is not claimed", *prop)
	}
	lock := map[string][]string{}
	readJSON(filepath.Join(vdir, "obligations.lock.json"), &lock)
	var known []KnownFinding
	readJSON(filepath.Join(vdir, "known_findings.json"), &known)

	v, err := loadAll(*repo, allPatterns)
	if err != nil {
		// the tree does not type-check: not a property verdict
		internal("%v", err)
	}
	timeout := 10
	all := false
	if *tier == "thorough" {
		timeout = 60
		all = true
	}
	var obls []*Obligation
	var results []*FuncResult
	var extraFns []string
	for fk := range cl.Extra {
		extraFns = append(extraFns, fk)
	}
	sort.Strings(extraFns)
	for _, fk := range append(append([]string{}, cl.Functions...), extraFns...) {
		r := v.VerifyFunc(fk)
		only, isExtra := cl.Extra[fk]
		if len(cl.SkipKinds) > 0 || isExtra {
			var keep []*Obligation
			for _, o := range r.Obls {
				skip := false
				for _, k := range cl.SkipKinds {
					if o.Kind == k {
						skip = true
					}
				}
				if isExtra {
					skip = true
					for _, k := range only {
						if o.Kind == k {
							skip = false
						}
					}
				}
				if !skip {
					keep = append(keep, o)
				}
			}
			r.Obls = keep
		}
		results = append(results, r)
		obls = append(obls, r.Obls...)
	}
	// lemmas over contract texts
	lemObls, lemNotes := v.lemmaObligations(*prop, cl)
	obls = append(obls, lemObls...)
	outDir := filepath.Join(envOr("VERIF_OUT", filepath.Join(vdir, "out")), "smt", *prop)
	os.RemoveAll(outDir)
	d := &Discharger{Dir: outDir, Timeout: timeout, All: all, DeferCand: true}
	d.Run(obls)
	retried := d.Retry(obls, 4, func(o *Obligation) bool {
		// a listed finding is reported as such either way: no need to wait for its full query again
		for _, kf := range known {
			if kf.Property == *prop && kf.Status == "known" && strings.HasPrefix(o.Name, kf.Obligation) {
				return true
			}
		}
		return false
	})
	groups := groupObls(obls)
	byName := map[string]*Group{}
	for _, g := range groups {
		byName[g.Name] = g
	}
	// canaries: negated postconditions must not discharge
	canaries, canaryFail := v.runCanaries(results, filepath.Join(outDir, "canary"), 5)

	stems := map[string]bool{}
	for _, g := range groups {
		stems[lockStem(g.Name)] = true
	}
	if *relock {
		var names []string
		seen := map[string]bool{}
		for _, g := range groups {
			if g.Status == "discharged" && lockedKind(g.Kind) && !seen[lockStem(g.Name)] {
				seen[lockStem(g.Name)] = true
				names = append(names, lockStem(g.Name))
			}
		}
		sort.Strings(names)
		lock[*prop] = names
		b, _ := json.MarshalIndent(lock, "", " ")
		os.WriteFile(filepath.Join(vdir, "obligations.lock.json"), append(b, '\n'), 0o644)
	}

	replayDir := filepath.Join(envOr("VERIF_OUT", filepath.Join(vdir, "out")), "replay", *prop)
	os.RemoveAll(replayDir)
	os.MkdirAll(replayDir, 0o755)
	violations := 0
	knownHit := []string{}
	var lines []string
	report := func(name, reason string, g *Group, r *FuncResult) {
		// known finding?
		for _, kf := range known {
			if kf.Property == *prop && kf.Status == "known" && strings.HasPrefix(name, kf.Obligation) {
				msg := fmt.Sprintf("KNOWN-FINDING: property=%s %s: %s", *prop, name, kf.What)
				dup := false
				for _, h := range knownHit {
					if h == msg {
						dup = true
					}
				}
				if !dup {
					knownHit = append(knownHit, msg)
					lines = append(lines, msg)
				}
				return
			}
		}
		violations++
		file := filepath.Join(replayDir, sanitizeFile(name)+".txt")
		reproduced := v.writeReplay(file, *prop, name, reason, g, r, cl, *repo)
		line := fmt.Sprintf("VIOLATION property=%s replay=%s", *prop, file)
		if !reproduced {
			line += " no-failing-input-found"
		}
		lines = append(lines, line)
	}
	resByFunc := map[string]*FuncResult{}
	for _, r := range results {
		resByFunc[r.Key] = r
	}
	for _, g := range groups {
		if g.Status != "discharged" {
			report(g.Name, "obligation not discharged: "+g.Status, g, resByFunc[g.Func])
		}
	}
	newNames := 0
	locked := map[string]bool{}
	for _, n := range lock[*prop] {
		locked[n] = true
		if !stems[n] {
			fk := n
			if i := strings.Index(n, "#"); i >= 0 {
				fk = n[:i]
			}
			r := resByFunc[fk]
			reason := "obligation of the lock file can no longer be generated"
			if r != nil && r.Unsupported != "" {
				reason = "undecided: " + r.Unsupported
			}
			report(n, reason, nil, r)
		}
	}
	for _, g := range groups {
		if lockedKind(g.Kind) && !locked[lockStem(g.Name)] {
			newNames++
		}
	}
	if len(lock[*prop]) == 0 && !*relock {
		internal("no lock entry for %s", *prop)
	}
	for _, r := range results {
		if r.Unsupported != "" && len(lock[*prop]) > 0 {
			covered := false
			for n := range locked {
				if strings.HasPrefix(n, r.Key+"#") {
					covered = true
				}
			}
			if !covered {
				internal("function %s: %s", r.Key, r.Unsupported)
			}
		}
	}
	if canaryFail != "" && violations == 0 {
		internal("vacuity guard: %s", canaryFail)
	}
	if len(d.Disagreements) > 0 {
		internal("solver disagreement: %s", strings.Join(d.Disagreements, "; "))
	}

	// evidence
	nDis := 0
	nKnown := 0
	for _, g := range groups {
		if g.Status == "discharged" {
			nDis++
		} else {
			for _, kf := range known {
				if kf.Property == *prop && kf.Status == "known" && strings.HasPrefix(g.Name, kf.Obligation) {
					nKnown++
					break
				}
			}
		}
	}
	type fucInfo struct {
		Name   string `json:"name"`
		Pos    string `json:"pos"`
		Instrs int    `json:"ssa_instructions"`
		Paths  int    `json:"paths"`
		Obls   int    `json:"obligation_instances"`
	}
	var fucs []fucInfo
	trusted := map[string]bool{}
	for _, r := range results {
		fucs = append(fucs, fucInfo{r.Key, r.Pos, r.Instrs, r.Paths, len(r.Obls)})
		for _, n := range r.Notes {
			trusted[n] = true
		}
	}
	for _, n := range lemNotes {
		trusted[n] = true
	}
	for _, a := range v.C.AssumeLines {
		trusted["contract-file assumption: "+a] = true
	}
	for _, a := range []string{
		"gowp itself (go/ssa NaiveForm symbolic execution, SMT encoding of Go semantics) is unverified",
		"integers are mathematical Ints with an explicit no-overflow obligation at every + - *",
		"strings are an uninterpreted sort; slices are (backing ref, len) with append/sub-slicing producing fresh backings",
		"select = nondeterministic choice among cases; blocking points havoc monitor-guarded state subject to the declared rely",
		"monitor invariants must depend only on the object's own guarded fields and channels it alone owns",
		"solvers: z3 4.8.12, z3 5.1.0, cvc5 1.0 (first definitive answer wins in the quick tier; all three must agree in the thorough tier)",
	} {
		trusted[a] = true
	}
	var tb []string
	for k := range trusted {
		tb = append(tb, k)
	}
	sort.Strings(tb)
	var samples []map[string]interface{}
	for _, g := range groups {
		if g.Kind == "post" || g.Kind == "inv" || g.Kind == "monitor" || g.Kind == "assert" || g.Kind == "lemma" {
			size := 0
			if len(g.Instances) > 0 && g.Instances[0].Note != "" {
				if fi, err := os.Stat(g.Instances[0].Note); err == nil {
					size = int(fi.Size())
				}
			}
			samples = append(samples, map[string]interface{}{"obligation": g.Name, "clause": g.Clause, "answer": g.Status, "backend": g.Backend, "instances": len(g.Instances), "smt_bytes": size, "pos": g.Pos})
			if len(samples) >= 6 {
				break
			}
		}
	}
	if len(samples) == 0 && len(groups) > 0 {
		samples = append(samples, map[string]interface{}{"obligation": groups[0].Name, "answer": groups[0].Status})
	}
	type slow struct {
		Name string  `json:"obligation"`
		T    float64 `json:"seconds"`
	}
	var slowest []slow
	for _, g := range groups {
		slowest = append(slowest, slow{g.Name, g.Time})
	}
	sort.Slice(slowest, func(i, j int) bool { return slowest[i].T > slowest[j].T })
	if len(slowest) > 5 {
		slowest = slowest[:5]
	}
	instances := len(obls)
	// thorough tier: the witness tests of the property are run against the tree under check (a test of a repaired
	// defect has to pass: if it fails the defect is back; a test of a known finding is expected to fail), and the
	// property's selftest mutants are run through the quick check in scratch worktrees (each has to be caught)
	var witnessRuns []map[string]interface{}
	selftest := map[string]interface{}{}
	tracesValidated := 0
	if *tier == "thorough" {
		seenSpec := map[string]bool{}
		var prefixes []string
		for pre := range cl.Replay {
			prefixes = append(prefixes, pre)
		}
		sort.Strings(prefixes)
		for _, pre := range prefixes {
			spec := cl.Replay[pre]
			if seenSpec[spec] {
				continue
			}
			seenSpec[spec] = true
			text, failed := v.tryReplay(*prop, pre, nil, cl, *repo)
			isKnown := false
			for _, kf := range known {
				if kf.Property == *prop && kf.Status == "known" && (strings.HasPrefix(pre, kf.Obligation) || strings.HasPrefix(kf.Obligation, pre)) {
					isKnown = true
				}
			}
			parts := strings.Split(spec, "|")
			res := "passes (the repaired defect has not returned)"
			switch {
			case failed && isKnown:
				res = "fails as recorded (known finding)"
			case failed:
				res = "FAILS"
				violations++
				file := filepath.Join(replayDir, "witness-"+sanitizeFile(parts[2])+".txt")
				os.WriteFile(file, []byte("witness test of obligation "+pre+" fails on the tree under check\n\n"+text), 0o644)
				lines = append(lines, fmt.Sprintf("VIOLATION property=%s replay=%s", *prop, file))
			case isKnown:
				res = "passes although the finding is recorded as known (was it repaired?)"
			}
			tracesValidated++
			witnessRuns = append(witnessRuns, map[string]interface{}{"obligation": pre, "test": parts[2], "result": res})
		}
		if *repo == "/repo" {
			muts, _ := filepath.Glob(filepath.Join(vdir, "selftest", "mutants", *prop+"_*.diff"))
			sort.Strings(muts)
			caught, missed := 0, []string{}
			var mu sync.Mutex
			var wg sync.WaitGroup
			sem := make(chan struct{}, 3)
			for mi, m := range muts {
				wg.Add(1)
				sem <- struct{}{}
				go func(mi int, m string) {
					defer wg.Done()
					defer func() { <-sem }()
					cmd := exec.Command(filepath.Join(vdir, "selftest", "mutant.sh"), m, "check", "-property", *prop, "-tier", "quick")
					cmd.Env = append(os.Environ(), "VERIF_SCRATCH="+filepath.Join(os.TempDir(), fmt.Sprintf("gowp-selftest-%d-%d", os.Getpid(), mi)))
					out, _ := cmd.CombinedOutput()
					mu.Lock()
					if strings.Contains(string(out), "VIOLATION property="+*prop) {
						caught++
					} else {
						missed = append(missed, filepath.Base(m))
					}
					mu.Unlock()
				}(mi, m)
			}
			wg.Wait()
			sort.Strings(missed)
			selftest = map[string]interface{}{"mutants": len(muts), "caught": caught, "missed": missed}
			if len(missed) > 0 {
				fmt.Printf("SELFTEST: %d of %d deliberately broken variants of the code were not reported by this check: %v\n", len(missed), len(muts), missed)
			}
		}
	}
	ev := map[string]interface{}{
		"property_id": *prop,
		"tier":        *tier,
		"seed":        seed,
		"level":       "proof",
		"wall_s":      time.Since(t0).Seconds(),
		"violations":  violations,
		"assumptions": append(append([]string{}, cl.Assumptions...), tb...),
		"coverage": map[string]interface{}{
			"obligations":               len(groups) - nKnown,
			"obligations_failing_as_known_findings": nKnown,
			"discharged":                nDis,
			"obligation_instances":      instances,
			"checker_cmd":               "gowp check -property " + *prop + " -tier " + *tier + " (repo " + *repo + ")",
			"trusted_base":              tb,
			"functions_under_contract":  fucs,
			"obligations_by_backend":    d.Stats,
			"solver_time_s":             map[string]float64{"sum": d.SolverTime, "max": d.MaxTime},
			"obligations_retried_after_timeout": retried,
			"slowest":                   slowest,
			"bounded":                   cl.Bounded,
			"known_findings_hit":        knownHit,
			"canaries":                  canaries,
			"new_obligations_not_in_lock": newNames,
			"locked_obligations":        len(lock[*prop]),
			"samples":                   samples,
			"not_decided":               cl.NotDecided,
			"explanation":               cl.Explanation,
			"traces_validated_against_impl": tracesValidated,
			"witness_tests_run_on_this_tree": witnessRuns,
			"selftest_mutants": selftest,
		},
	}
	b, _ := json.MarshalIndent(ev, "", " ")
	evDir := filepath.Join(vdir, "evidence")
	if os.Getenv("VERIF_REPO") != "" && os.Getenv("VERIF_REPO") != "/repo" {
		// a run against a scratch copy (selftest mutants): its evidence does not describe /repo
		evDir = filepath.Join(envOr("VERIF_OUT", filepath.Join(vdir, "out")), "evidence")
	}
	if d := os.Getenv("VERIF_EVIDENCE_DIR"); d != "" {
		evDir = d // runs against a deliberately changed tree (seeded changes) keep their evidence apart
	}
	os.MkdirAll(evDir, 0o755)
	if err := os.WriteFile(filepath.Join(evDir, *prop+".json"), append(b, '\n'), 0o644); err != nil {
		internal("%v", err)
	}
	for _, l := range lines {
		fmt.Println(l)
	}
	fmt.Printf("property %s: %d obligations (%d instances), %d discharged, %d violations, %d known findings, %.1fs\n", *prop, len(groups), instances, nDis, violations, len(knownHit), time.Since(t0).Seconds())
	if violations > 0 {
		os.Exit(1)
	}
}

func sanitizeFile(s string) string {
	var b strings.Builder
	for _, c := range s {
		if c >= 'a' && c <= 'z' || c >= 'A' && c <= 'Z' || c >= '0' && c <= '9' || c == '.' || c == '-' || c == '_' || c == '#' || c == ':' || c == '@' {
			b.WriteRune(c)
		} else {
			b.WriteRune('_')
		}
	}
	s = b.String()
	if len(s) > 180 {
		s = s[:180]
	}
	return s
}

// writeReplay writes the replay file; returns true when a failing input was reproduced on the real code.
func (v *Verifier) writeReplay(file, prop, name, reason string, g *Group, r *FuncResult, cl *Claim, repo string) bool {
	var b strings.Builder
	fmt.Fprintf(&b, "property: %s\nobligation: %s\nreason: %s\n", prop, name, reason)
	if g != nil {
		fmt.Fprintf(&b, "clause: %s\nposition: %s\n", g.Clause, g.Pos)
		for _, o := range g.Instances {
			if o.Status == "discharged" {
				continue
			}
			fmt.Fprintf(&b, "\n--- instance: status=%s backend=%s time=%.2fs\n", o.Status, o.Backend, o.Time)
			fmt.Fprintf(&b, "path: %s\n", strings.Join(o.Trace, " > "))
			fmt.Fprintf(&b, "smt file: %s\n", o.Note)
			fmt.Fprintf(&b, "solver output:\n%s\n", trunc(o.Model, 6000))
		}
	}
	if r != nil && r.Unsupported != "" {
		fmt.Fprintf(&b, "\nfunction %s could not be analysed: %s\n", r.Key, r.Unsupported)
	}
	reproduced := false
	if out, ok := v.tryReplay(prop, name, g, cl, repo); out != "" {
		fmt.Fprintf(&b, "\n=== replay on the real code ===\n%s\n", out)
		reproduced = ok
	}
	os.WriteFile(file, []byte(b.String()), 0o644)
	return reproduced
}

// The lock file pins the semantic obligations (contract clauses). Automatic safety obligations
// (nil, bounds, overflow, lockset, frame) must discharge whenever they are generated but are not
// pinned: removing a dereference is a harmless edit.
func lockedKind(k string) bool {
	switch k {
	case "post", "inv", "monitor", "assert", "lemma", "cover", "escapable", "stable", "waitlevel", "setonce":
		return true
	}
	return false
}

var ordinalRe = regexp.MustCompile(`#\d+$`)

func lockStem(n string) string { return ordinalRe.ReplaceAllString(n, "") }
