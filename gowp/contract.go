package main

// Contract files: /repo/<pkg>/zz_contracts_verif.go, comment-only, //go:build verif.
// Line-based: every line starts with "//@". A line whose first word is a keyword
// starts a block or a clause; any other line continues the previous clause.

import (
	"fmt"
	"os"
	"path/filepath"
	"regexp"
	"strconv"
	"strings"
)

type Clause struct {
	Kind  string // requires ensures panics-ensures panics-when modifies nopanic arith inv assert callee ...
	Label string
	Text  string
	E     *Expr
	Loop  int    // for inv/decreases
	Site  string // for assert/stable/escapable/callee
	File  string
	Line  int
	Extra map[string]string
}

type FuncContract struct {
	Pkg     string // package name (short)
	Name    string // RelString form, e.g. (*Message).Ack, NewMessage, (*handler).handleMessage$1
	Clauses []*Clause
	File    string
	Line    int
}

func (fc *FuncContract) Key() string { return fc.Pkg + "." + fc.Name }

func (fc *FuncContract) Of(kind string) []*Clause {
	var out []*Clause
	for _, c := range fc.Clauses {
		if c.Kind == kind {
			out = append(out, c)
		}
	}
	return out
}

func (fc *FuncContract) Has(kind string) bool { return len(fc.Of(kind)) > 0 }

type Monitor struct {
	Lock    string          // field name of the mutex (or pointer-to-mutex field)
	Guards  map[string]bool // field -> guarded
	WriteOnly map[string]bool // field -> only writes need the lock
	CloseOnly map[string]bool // chan field -> never reassigned once the object is shared; only closing its channel needs the lock
	RWrite    map[string]bool // field -> writers hold this (RW) lock in read mode only; another monitor listing the field serialises them
}

type TypeContract struct {
	Pkg        string
	Name       string
	Self       string // name of the self variable in invariants (default: first letter lower)
	Monitors   []*Monitor
	Invariants []*Clause // over Self
	Relies     []*Clause // two-state over Self, old()
	GhostFields map[string]string // ghost field name -> type text
	Strong     []*Clause // invariants that hold at every instant, also inside critical sections
	OwnsChan   []string  // chan-typed fields whose channels are closed only under the type's own protocol
	ChanUnder  map[string]string // chan field -> "Type.lockfield": every close of the field's channel happens under a lock of that class
	RestInvs   []*Clause // monitor invariants that hold only while the lock is free (not at hand-over or helper calls inside a critical section)
	WgAddsUnder map[string]string // WaitGroup field -> "pkg.Type.lockfield": every Add on WaitGroups of that field happens under a lock of that class
	ObjInvs    []*Clause // hold for every object of the type from the moment it is shared (checked when it stops being thread-local and after stores to the fields they mention)
	SetOnce    map[string]bool   // fields that only ever leave their zero value: every store proves "old == zero or new == old" (a published flag is never taken back)
	SyncMaps   map[string]string // sync.Map field -> type text of the values it holds (non-nil pointers of that type)
	File       string
}

type SpecFunc struct {
	Pkg    string
	Name   string
	Params []BoundDecl
	Ret    string
	Body   *Expr
	Text   string
	Rec    bool
	Decreases *Expr
	Uninterp bool // declared without body
}

type Lemma struct {
	Pkg, Name string
	E   *Expr
	From []string
	Text string
}

type Contracts struct {
	Funcs   map[string]*FuncContract // key pkg.Name
	Types   map[string]*TypeContract // key pkg.Type
	Specs   map[string]*SpecFunc     // key pkg.name (also looked up by bare name within pkg)
	Globals map[string][]*Clause     // pkg -> global invariants
	Assumed map[string]*FuncContract // assume-contract: key is full callee name as printed by ssa (e.g. bytes.Equal, (*sync.Mutex).Lock)
	Lemmas  []*Lemma
	Files   []string
	AssumeLines []string // mechanical scan: every assume-contract / ASSUMED line
	UsesCloseOnly map[string]bool // package name -> its contracts mention closeonly
	WaitOrders map[string]*WaitOrder // package name -> total order of wait classes (deadlock freedom)
}

var clauseKeywords = map[string]bool{
	"requires": true, "ensures": true, "panics-ensures": true, "panics-when": true, "modifies": true,
	"nopanic": true, "arith": true, "inv": true, "decreases": true, "assert": true, "callee": true,
	"stable": true, "escapable": true, "thread-entry": true, "split": true, "inline": true, "pure": true,
	"monitor": true, "invariant": true, "rely": true, "self": true, "maypanic": true, "havoc": true,
	"assume": true, "entry-assume": true, "ownschan": true, "strong-invariant": true, "ghostfield": true, "interferes": true, "ghost": true, "unroll": true, "trusted": true, "syncmap": true, "object-invariant": true, "rest-invariant": true, "wgadds": true, "gives": true, "setonce": true,
}
var blockKeywords = map[string]bool{"waitorder": true, "lockorder": true, "type": true, "func": true, "spec": true, "lemma": true, "assume-contract": true, "global": true, "chan": true}

var labelRe = regexp.MustCompile(`\s*\[([A-Za-z0-9_:\-\.]+)\]\s*$`)

func LoadContracts(repo string) (*Contracts, error) {
	cs := &Contracts{Funcs: map[string]*FuncContract{}, Types: map[string]*TypeContract{}, Specs: map[string]*SpecFunc{}, Globals: map[string][]*Clause{}, Assumed: map[string]*FuncContract{}, UsesCloseOnly: map[string]bool{}, WaitOrders: map[string]*WaitOrder{}}
	var files []string
	filepath.Walk(repo, func(p string, info os.FileInfo, err error) error {
		if err != nil {
			return nil
		}
		if info.IsDir() && (info.Name() == ".git" || info.Name() == "_examples" || info.Name() == "docs") {
			return filepath.SkipDir
		}
		if !info.IsDir() && info.Name() == "zz_contracts_verif.go" {
			files = append(files, p)
		}
		return nil
	})
	for _, f := range files {
		if err := cs.parseFile(f); err != nil {
			return nil, err
		}
	}
	cs.Files = files
	return cs, nil
}

type rawLine struct {
	text string
	line int
}

func (cs *Contracts) parseFile(path string) error {
	data, err := os.ReadFile(path)
	if err != nil {
		return err
	}
	lines := strings.Split(string(data), "\n")
	pkg := ""
	if len(lines) == 0 || !strings.HasPrefix(strings.TrimSpace(lines[0]), "//go:build verif") {
		return fmt.Errorf("%s: contract file must start with //go:build verif", path)
	}
	var raws []rawLine
	for i, l := range lines {
		t := strings.TrimSpace(l)
		if strings.HasPrefix(t, "package ") {
			pkg = strings.TrimSpace(strings.TrimPrefix(t, "package "))
			continue
		}
		if strings.HasPrefix(t, "//@") {
			body := strings.TrimSpace(strings.TrimPrefix(t, "//@"))
			if body == "" || strings.HasPrefix(body, "--") {
				continue
			}
			if idx := strings.Index(body, " -- "); idx >= 0 {
				body = strings.TrimSpace(body[:idx])
			}
			raws = append(raws, rawLine{body, i + 1})
			if strings.Contains(body, "closeonly") && pkg != "" {
				cs.UsesCloseOnly[pkg] = true
			}
			continue
		}
		if t == "" || strings.HasPrefix(t, "//") {
			continue
		}
		return fmt.Errorf("%s:%d: contract files are comment-only (found %q)", path, i+1, t)
	}
	if pkg == "" {
		return fmt.Errorf("%s: no package clause", path)
	}
	// group into logical lines (continuations)
	type logical struct {
		kw   string
		rest string
		line int
	}
	var ls []logical
	for _, r := range raws {
		fs := strings.Fields(r.text)
		kw := fs[0]
		if blockKeywords[kw] || clauseKeywords[kw] {
			ls = append(ls, logical{kw, strings.TrimSpace(strings.TrimPrefix(r.text, kw)), r.line})
		} else {
			if len(ls) == 0 {
				return fmt.Errorf("%s:%d: continuation line without a clause", path, r.line)
			}
			ls[len(ls)-1].rest += " " + r.text
		}
	}
	var curF *FuncContract
	var curT *TypeContract
	for _, l := range ls {
		if strings.Contains(l.rest, "ASSUMED") || l.kw == "assume-contract" || l.kw == "assume" || l.kw == "trusted" {
			cs.AssumeLines = append(cs.AssumeLines, fmt.Sprintf("%s:%d: %s %s", filepath.Base(filepath.Dir(path)), l.line, l.kw, l.rest))
		}
		switch l.kw {
		case "func":
			curT = nil
			curF = &FuncContract{Pkg: pkg, Name: strings.TrimSpace(l.rest), File: path, Line: l.line}
			if _, dup := cs.Funcs[curF.Key()]; dup {
				return fmt.Errorf("%s:%d: duplicate contract for %s", path, l.line, curF.Key())
			}
			cs.Funcs[curF.Key()] = curF
		case "assume-contract":
			curT = nil
			curF = &FuncContract{Pkg: pkg, Name: strings.TrimSpace(l.rest), File: path, Line: l.line}
			cs.Assumed[curF.Name] = curF
		case "type":
			curF = nil
			name := strings.TrimSpace(l.rest)
			curT = &TypeContract{Pkg: pkg, Name: name, Self: strings.ToLower(name[:1]), File: path}
			cs.Types[pkg+"."+name] = curT
		case "global":
			curF, curT = nil, nil
			c, err := mkClause("global", l.rest, path, l.line)
			if err != nil {
				return err
			}
			cs.Globals[pkg] = append(cs.Globals[pkg], c)
		case "spec":
			curF, curT = nil, nil
			sf, err := parseSpec(pkg, l.rest)
			if err != nil {
				return fmt.Errorf("%s:%d: %v", path, l.line, err)
			}
			cs.Specs[pkg+"."+sf.Name] = sf
		case "lemma":
			curF, curT = nil, nil
			// lemma NAME: expr
			i := strings.Index(l.rest, ":")
			if i < 0 {
				return fmt.Errorf("%s:%d: lemma needs NAME: expr", path, l.line)
			}
			body := l.rest[i+1:]
			var from []string
			if j := strings.LastIndex(body, " from "); j >= 0 {
				for _, f := range strings.Split(body[j+6:], ",") {
					from = append(from, strings.TrimSpace(f))
				}
				body = body[:j]
			}
			e, err := ParseExpr(body)
			if err != nil {
				return fmt.Errorf("%s:%d: %v", path, l.line, err)
			}
			cs.Lemmas = append(cs.Lemmas, &Lemma{Pkg: pkg, Name: strings.TrimSpace(l.rest[:i]), E: e, From: from, Text: body})
		case "chan":
			// reserved
		case "waitorder", "lockorder":
			curF, curT = nil, nil
			wo, err := parseWaitOrder(pkg, l.rest, path, l.line)
			if err != nil {
				return err
			}
			wo.LocksOnly = l.kw == "lockorder"
			if _, dup := cs.WaitOrders[pkg]; dup {
				return fmt.Errorf("%s:%d: a package has one waitorder", path, l.line)
			}
			cs.WaitOrders[pkg] = wo
		default:
			if curT != nil {
				switch l.kw {
				case "self":
					curT.Self = strings.TrimSpace(l.rest)
				case "monitor":
					// monitor LOCK guards f, g(write)
					parts := strings.SplitN(l.rest, " guards ", 2)
					if len(parts) != 2 {
						return fmt.Errorf("%s:%d: monitor LOCK guards fields", path, l.line)
					}
					m := &Monitor{Lock: strings.TrimSpace(parts[0]), Guards: map[string]bool{}, WriteOnly: map[string]bool{}, RWrite: map[string]bool{}, CloseOnly: map[string]bool{}}
					for _, f := range strings.Split(parts[1], ",") {
						f = strings.TrimSpace(f)
						if strings.HasSuffix(f, "(write)") {
							f = strings.TrimSuffix(f, "(write)")
							m.WriteOnly[f] = true
						}
						if strings.HasSuffix(f, "(close)") {
							f = strings.TrimSuffix(f, "(close)")
							m.CloseOnly[f] = true
							m.WriteOnly[f] = true
						}
						if strings.HasSuffix(f, "(rwrite)") {
							f = strings.TrimSuffix(f, "(rwrite)")
							m.RWrite[f] = true
						}
						m.Guards[f] = true
					}
					curT.Monitors = append(curT.Monitors, m)
				case "ownschan":
					for _, f := range strings.Split(l.rest, ",") {
						f = strings.TrimSpace(f)
						if i := strings.Index(f, "("); i > 0 && strings.HasSuffix(f, ")") {
							if curT.ChanUnder == nil {
								curT.ChanUnder = map[string]string{}
							}
							cls := f[i+1 : len(f)-1]
							if !strings.Contains(cls, ".") {
								cls = curT.Name + "." + cls
							}
							curT.ChanUnder[f[:i]] = pkg + "." + cls
							f = f[:i]
						}
						curT.OwnsChan = append(curT.OwnsChan, f)
					}
					cs.AssumeLines = append(cs.AssumeLines, fmt.Sprintf("%s:%d: type %s ownschan %s (ASSUMED: code outside watermill never closes these channels; the module's own close sites are listed by the frame sweep)", filepath.Base(filepath.Dir(path)), l.line, curT.Name, l.rest))
				case "syncmap":
					fs := strings.Fields(l.rest)
					if len(fs) != 2 {
						return fmt.Errorf("%s:%d: syncmap FIELD VALUETYPE", path, l.line)
					}
					if curT.SyncMaps == nil {
						curT.SyncMaps = map[string]string{}
					}
					curT.SyncMaps[fs[0]] = fs[1]
				case "ghostfield":
					fs := strings.Fields(l.rest)
					if len(fs) != 2 {
						return fmt.Errorf("%s:%d: ghostfield NAME TYPE", path, l.line)
					}
					if curT.GhostFields == nil {
						curT.GhostFields = map[string]string{}
					}
					curT.GhostFields[fs[0]] = fs[1]
				case "setonce":
					if curT.SetOnce == nil {
						curT.SetOnce = map[string]bool{}
					}
					for _, f := range strings.Split(l.rest, ",") {
						curT.SetOnce[strings.TrimSpace(f)] = true
					}
				case "wgadds":
					// wgadds FIELD under LOCKFIELD | Type.LOCKFIELD
					fs := strings.Fields(l.rest)
					if len(fs) != 3 || fs[1] != "under" {
						return fmt.Errorf("%s:%d: wgadds FIELD under LOCK", path, l.line)
					}
					if curT.WgAddsUnder == nil {
						curT.WgAddsUnder = map[string]string{}
					}
					cls := fs[2]
					if !strings.Contains(cls, ".") {
						cls = curT.Name + "." + cls
					}
					curT.WgAddsUnder[fs[0]] = pkg + "." + cls
				case "rest-invariant":
					c, err := mkClause("invariant", l.rest, path, l.line)
					if err != nil {
						return err
					}
					curT.RestInvs = append(curT.RestInvs, c)
				case "object-invariant":
					c, err := mkClause("invariant", l.rest, path, l.line)
					if err != nil {
						return err
					}
					curT.ObjInvs = append(curT.ObjInvs, c)
				case "strong-invariant":
					c, err := mkClause("invariant", l.rest, path, l.line)
					if err != nil {
						return err
					}
					curT.Strong = append(curT.Strong, c)
				case "invariant":
					c, err := mkClause("invariant", l.rest, path, l.line)
					if err != nil {
						return err
					}
					curT.Invariants = append(curT.Invariants, c)
				case "rely":
					c, err := mkClause("rely", l.rest, path, l.line)
					if err != nil {
						return err
					}
					curT.Relies = append(curT.Relies, c)
				default:
					return fmt.Errorf("%s:%d: clause %q not allowed in a type block", path, l.line, l.kw)
				}
				continue
			}
			if curF == nil {
				return fmt.Errorf("%s:%d: clause %q outside a func/type block", path, l.line, l.kw)
			}
			c, err := mkClause(l.kw, l.rest, path, l.line)
			if err != nil {
				return err
			}
			curF.Clauses = append(curF.Clauses, c)
		}
	}
	// default labels: c<k> by position within block per kind
	for _, fc := range cs.Funcs {
		n := map[string]int{}
		for _, c := range fc.Clauses {
			n[c.Kind]++
			if c.Label == "" {
				c.Label = fmt.Sprintf("c%d", n[c.Kind])
			}
		}
	}
	return nil
}

func mkClause(kind, rest, file string, line int) (*Clause, error) {
	c := &Clause{Kind: kind, File: file, Line: line, Extra: map[string]string{}}
	if m := labelRe.FindStringSubmatch(rest); m != nil {
		c.Label = m[1]
		rest = strings.TrimSpace(rest[:len(rest)-len(m[0])])
	}
	c.Text = rest
	var exprText string
	switch kind {
	case "requires", "ensures", "panics-ensures", "panics-when", "invariant", "rely", "global", "assume", "entry-assume", "thread-entry":
		exprText = strings.TrimPrefix(rest, "requires ")
	case "inv", "decreases":
		// inv loop N: expr
		re := regexp.MustCompile(`^loop\s*(\d+)\s*:\s*(.*)$`)
		m := re.FindStringSubmatch(rest)
		if m == nil {
			return nil, fmt.Errorf("%s:%d: expected 'loop N: expr'", file, line)
		}
		c.Loop, _ = strconv.Atoi(m[1])
		exprText = m[2]
	case "assert", "stable", "escapable", "gives":
		// assert @SITE: expr
		re := regexp.MustCompile(`^@(\S+?)\s*:\s+(.*)$`)
		m := re.FindStringSubmatch(rest)
		if m == nil {
			if kind == "escapable" {
				c.Site = strings.TrimPrefix(strings.TrimSpace(rest), "@")
				return c, nil
			}
			return nil, fmt.Errorf("%s:%d: expected '@SITE: expr'", file, line)
		}
		c.Site = m[1]
		exprText = m[2]
	case "callee":
		// callee LABEL = pattern : behaviour words
		re := regexp.MustCompile(`^(\w+)\s*=\s*(\S+)\s*(?::\s*(.*))?$`)
		m := re.FindStringSubmatch(rest)
		if m == nil {
			return nil, fmt.Errorf("%s:%d: expected 'callee LABEL = pattern [: behaviour]'", file, line)
		}
		c.Label = m[1]
		c.Site = m[2]
		c.Extra["behaviour"] = m[3]
		return c, nil
	case "modifies":
		re := regexp.MustCompile(`^loop\s*(\d+)\s*:\s*(.*)$`)
		if m := re.FindStringSubmatch(rest); m != nil {
			c.Loop, _ = strconv.Atoi(m[1])
			c.Text = m[2]
		}
		return c, nil
	default:
		return c, nil
	}
	e, err := ParseExpr(exprText)
	if err != nil {
		return nil, fmt.Errorf("%s:%d: %v", file, line, err)
	}
	c.E = e
	c.Text = exprText
	return c, nil
}

// spec NAME(p T, q U) RET := body   |   spec NAME(p T) RET   (uninterpreted)
func parseSpec(pkg, rest string) (*SpecFunc, error) {
	re := regexp.MustCompile(`^(\w+)\s*\(([^)]*)\)\s*([^:]*?)\s*(?::=\s*(.*))?$`)
	m := re.FindStringSubmatch(rest)
	if m == nil {
		return nil, fmt.Errorf("bad spec: %s", rest)
	}
	sf := &SpecFunc{Pkg: pkg, Name: m[1], Ret: strings.TrimSpace(m[3]), Text: rest}
	if strings.TrimSpace(m[2]) != "" {
		for _, p := range strings.Split(m[2], ",") {
			fs := strings.Fields(strings.TrimSpace(p))
			if len(fs) < 2 {
				return nil, fmt.Errorf("bad spec param %q", p)
			}
			sf.Params = append(sf.Params, BoundDecl{fs[0], strings.Join(fs[1:], "")})
		}
	}
	body := m[4]
	if body == "" {
		sf.Uninterp = true
		return sf, nil
	}
	if j := strings.LastIndex(body, " decreases "); j >= 0 {
		d, err := ParseExpr(body[j+11:])
		if err != nil {
			return nil, err
		}
		sf.Decreases = d
		sf.Rec = true
		body = body[:j]
	}
	e, err := ParseExpr(body)
	if err != nil {
		return nil, err
	}
	sf.Body = e
	return sf, nil
}

// loadExtra reads contract files kept outside the repository (assumed contracts of dependencies).
func (cs *Contracts) loadExtra(dir string) error {
	ents, err := os.ReadDir(dir)
	if err != nil {
		return nil
	}
	for _, e := range ents {
		if strings.HasSuffix(e.Name(), ".go") {
			if err := cs.parseFile(filepath.Join(dir, e.Name())); err != nil {
				return err
			}
			cs.Files = append(cs.Files, filepath.Join(dir, e.Name()))
		}
	}
	return nil
}
