package main

// Calls, defers, panics, returns, loops.

import (
	"fmt"
	"regexp"
	"go/token"
	"go/types"
	"sort"
	"strings"

	"golang.org/x/tools/go/ssa"
)

func (x *Exec) bindResult(fr *Frame, dst ssa.Value, res []*Val) {
	if dst == nil {
		return
	}
	switch len(res) {
	case 0:
		fr.Regs[dst] = &Val{T: dst.Type(), Fields: []*Val{}}
	case 1:
		v := res[0]
		fr.Regs[dst] = v
	default:
		fr.Regs[dst] = &Val{T: dst.Type(), Fields: res}
	}
}

func (x *Exec) doReturn(st *State, fr *Frame, res []*Val, pos token.Pos) {
	if len(st.Frames) > 1 {
		st.Frames = st.Frames[:len(st.Frames)-1]
		caller := st.Top()
		if !fr.IsDeferCall {
			x.bindResult(caller, fr.RetTo, res)
		}
		return
	}
	x.exitFunction(st, fr, res, false, pos)
}

func (x *Exec) startPanic(st *State, v *Val, why string) {
	st.Panicking = true
	st.PanicVal = v
	st.Trace = append(st.Trace, "panic: "+why)
	fr := st.Top()
	fr.Unwinding = true
	fr.Draining = 2
}

func (x *Exec) drain(st *State, fr *Frame) {
	if len(fr.Defers) > 0 {
		d := fr.Defers[len(fr.Defers)-1]
		fr.Defers = fr.Defers[:len(fr.Defers)-1]
		x.callDeferred(st, fr, d)
		return
	}
	mode := fr.Draining
	fr.Draining = 0
	if mode == 1 && !fr.Unwinding {
		return // continue after rundefers
	}
	// unwinding
	if st.Panicking {
		if len(st.Frames) > 1 {
			st.Frames = st.Frames[:len(st.Frames)-1]
			caller := st.Top()
			caller.Unwinding = true
			caller.Draining = 2
			return
		}
		x.exitFunction(st, fr, nil, true, token.NoPos)
		return
	}
	// recovered: resume at the Recover block
	fr.Unwinding = false
	if fr.Fn.Recover != nil {
		fr.Prev = fr.Blk
		fr.Blk = fr.Fn.Recover
		fr.Idx = 0
		return
	}
	// no recover block: function returns zero values
	var res []*Val
	rs := fr.Fn.Signature.Results()
	for k := 0; k < rs.Len(); k++ {
		res = append(res, zeroVal(rs.At(k).Type()))
	}
	x.doReturn(st, fr, res, token.NoPos)
}

func (x *Exec) callDeferred(st *State, fr *Frame, d *Deferred) {
	if di, ok := d.Instr.(*ssa.Defer); ok {
		x.curDefer = di
		defer func() { x.curDefer = nil }()
	}
	x.dispatch(st, fr, nil, d.Call, d.Fn, d.Args, d.Instr.Pos(), true)
}

func (x *Exec) call(st *State, fr *Frame, dst ssa.Value, c *ssa.CallCommon, in ssa.Instruction, isDefer bool) {
	var args []*Val
	for _, a := range c.Args {
		args = append(args, x.val(st, fr, a))
	}
	fv := x.val(st, fr, c.Value)
	x.dispatch(st, fr, dst, c, fv, args, in.Pos(), isDefer)
}

// accessPath names an SSA value by how the source reaches it (for callee patterns).
func accessPath(v ssa.Value) string {
	switch t := v.(type) {
	case *ssa.Parameter:
		return t.Name()
	case *ssa.Alloc:
		return t.Comment
	case *ssa.FreeVar:
		return t.Name()
	case *ssa.UnOp:
		if t.Op == token.MUL {
			switch a := t.X.(type) {
			case *ssa.Alloc:
				return a.Comment
			case *ssa.FieldAddr:
				st := pointee(a.X.Type()).Underlying().(*types.Struct)
				return accessPath(a.X) + "." + st.Field(a.Field).Name()
			case *ssa.FreeVar:
				return a.Name()
			case *ssa.Global:
				return a.Name()
			case *ssa.IndexAddr:
				return accessPath(a.X) + "[]"
			}
		}
	case *ssa.FieldAddr:
		st := pointee(t.X.Type()).Underlying().(*types.Struct)
		return accessPath(t.X) + "." + st.Field(t.Field).Name()
	case *ssa.Field:
		st := t.X.Type().Underlying().(*types.Struct)
		return accessPath(t.X) + "." + st.Field(t.Field).Name()
	case *ssa.Extract:
		return accessPath(t.Tuple)
	case *ssa.Call:
		return ""
	case *ssa.ChangeType:
		return accessPath(t.X)
	case *ssa.MakeInterface:
		return accessPath(t.X)
	case *ssa.Phi:
		return t.Comment
	}
	return ""
}

func (x *Exec) dispatch(st *State, fr *Frame, dst ssa.Value, c *ssa.CallCommon, fv *Val, args []*Val, pos token.Pos, isDefer bool) {
	// builtin?
	if b, ok := c.Value.(*ssa.Builtin); ok {
		x.builtin(st, fr, dst, b, args, pos, isDefer)
		return
	}
	if c.IsInvoke() {
		x.unknownCall(st, fr, dst, c, fv, args, pos, c.Method.Name(), c.Signature())
		return
	}
	var callee *ssa.Function
	var freeVars []*Val
	switch {
	case fv.Fn != nil:
		callee = fv.Fn
	case fv.Clo != nil:
		callee = fv.Clo.Fn
		freeVars = fv.Clo.Bindings
	}
	if callee == nil {
		if x.callCancel(st, fv) {
			x.bindResult(fr, dst, nil)
			return
		}
		x.unknownCall(st, fr, dst, c, fv, args, pos, "", c.Signature())
		return
	}
	full := callee.String()
	if x.model(st, fr, dst, callee, full, args, pos) {
		return
	}
	if full == "(*github.com/sony/gobreaker.CircuitBreaker).Execute" && len(args) == 2 && args[1].Clo != nil {
		x.note("ASSUMED gobreaker.CircuitBreaker.Execute in the closed state: calls req exactly once and returns its results unchanged")
		x.nilCheck(st, args[0], "breaker", pos)
		x.inline(st, fr, dst, args[1].Clo.Fn, nil, args[1].Clo.Bindings, false)
		return
	}
	key := x.V.P.FuncKey(callee)
	if fc, ok := x.V.C.Funcs[key]; ok && fc.Has("inline") && callee.Blocks != nil {
		x.inline(st, fr, dst, callee, args, freeVars, isDefer)
		return
	}
	if fc, ok := x.V.C.Funcs[key]; ok && !(x.inlineSelf(callee)) {
		x.applyContract(st, fr, dst, callee, fc, args, freeVars, pos, false)
		return
	}
	if fc, ok := x.V.C.Assumed[full]; ok {
		x.note("assume-contract " + full)
		x.applyContract(st, fr, dst, callee, fc, args, freeVars, pos, true)
		return
	}
	inModule := callee.Package() != nil && callee.Package().Pkg != nil && strings.HasPrefix(callee.Package().Pkg.Path(), modulePath)
	if callee.Blocks != nil && (inModule || (callee.Synthetic != "" && !strings.HasPrefix(callee.Synthetic, "instance of"))) && len(st.Frames) < 6 {
		if c != nil && fv != nil && fv.Clo != nil {
			// a call of a local function literal through its variable: a site of its own (call:NAME)
			if ap := accessPath(c.Value); ap != "" {
				x.siteAsserts(st, fr, "call:"+ap, pos)
			}
		}
		x.inline(st, fr, dst, callee, args, freeVars, isDefer)
		return
	}
	// external function without contract: total; may rewrite what its arguments point to directly
	// (slice elements, pointed-to structs, map contents); result unconstrained (trusted, listed)
	x.note("extern " + full + ": assumed total; may modify only the elements/fields/entries its arguments directly reference; result unconstrained")
	x.havocArgTargets(st, args)
	x.bindFresh(st, fr, dst, callee.Signature, "ext$"+sanitize(callee.Name()))
}

func (x *Exec) inlineSelf(callee *ssa.Function) bool { return false }

func (x *Exec) bindFresh(st *State, fr *Frame, dst ssa.Value, sig *types.Signature, name string) []*Val {
	var res []*Val
	for k := 0; k < sig.Results().Len(); k++ {
		v := freshVal(sig.Results().At(k).Type(), name)
		st.assumeValAllocated(v)
		res = append(res, v)
	}
	x.bindResult(fr, dst, res)
	return res
}

func (x *Exec) inline(st *State, fr *Frame, dst ssa.Value, callee *ssa.Function, args []*Val, freeVars []*Val, isDefer bool) {
	if len(x.V.P.LoopsOf(callee)) > 0 {
		unsupportedf("call to %s: callee has loops and no contract (cannot inline)", callee.String())
	}
	for _, f := range st.Frames {
		if f.Fn == callee {
			unsupportedf("recursive inlining of %s", callee.String())
		}
	}
	nf := &Frame{Fn: callee, Regs: map[ssa.Value]*Val{}, Blk: callee.Blocks[0], RetTo: dst, FreeVars: freeVars, IsDeferCall: isDefer, LoopSeen: map[*ssa.BasicBlock]bool{}}
	if len(args) != len(callee.Params) {
		unsupportedf("inline %s: %d args for %d params", callee.String(), len(args), len(callee.Params))
	}
	for k, p := range callee.Params {
		nf.Regs[p] = args[k]
	}
	if len(callee.FreeVars) != len(freeVars) {
		unsupportedf("inline %s: free variables not bound", callee.String())
	}
	st.Frames = append(st.Frames, nf)
}

// ---- unknown callees (function values, interface methods) ----

func (x *Exec) matchCallee(c *ssa.CallCommon, method string) *Clause {
	if x.FC == nil {
		return nil
	}
	ap := accessPath(c.Value)
	for _, cl := range x.FC.Of("callee") {
		pat := cl.Site
		if method != "" {
			if pat == ap+"."+method || pat == "*."+method {
				return cl
			}
		} else if pat == ap {
			return cl
		}
	}
	return nil
}

func isLoggerType(t types.Type) bool {
	n := typeName(t)
	return n == "watermill.LoggerAdapter"
}

func (x *Exec) unknownCall(st *State, fr *Frame, dst ssa.Value, c *ssa.CallCommon, fv *Val, args []*Val, pos token.Pos, method string, sig *types.Signature) {
	for _, a := range args {
		if a != nil && a.Cell != nil {
			unsupportedf("pointer to local variable %s passed to unknown code", a.Cell.Name)
		}
	}
	if method != "" && isLoggerType(c.Value.Type()) {
		x.note("watermill.LoggerAdapter methods: assumed total and without effect on tracked state")
		x.bindFresh(st, fr, dst, sig, "log")
		if method == "With" && dst != nil {
			if rv := fr.Regs[dst]; rv != nil && rv.Term != nil {
				x.note("watermill.LoggerAdapter.With: assumed to return a usable (non-nil) logger")
				st.Assume(Neq(rv.Term, IntLit(0)))
			}
		}
		return
	}
	if method == "Error" && typeName(c.Value.Type()) == "error" {
		x.note("error.Error() of an arbitrary error value: assumed total and pure (uninterpreted function of the error)")
		x.nilCheck(st, fv, "invoke:Error", pos)
		if dst != nil {
			fr.Regs[dst] = &Val{T: types.Typ[types.String], Term: UF("error$Error", SStr, fv.Term)}
		}
		return
	}
	if method != "" {
		if fc, ok := x.V.C.Assumed["iface:"+typeName(c.Value.Type())+"."+method]; ok {
			x.applyIfaceContract(st, fr, dst, c, fc, fv, args, pos)
			return
		}
	}
	cl := x.matchCallee(c, method)
	label := ""
	behaviour := ""
	if cl != nil {
		label = cl.Label
		behaviour = cl.Extra["behaviour"]
	}
	what := accessPath(c.Value)
	if method != "" {
		what += "." + method
	}
	if what == "" {
		what = "fn"
	}
	if method != "" {
		x.nilCheck(st, fv, "invoke:"+what, pos)
	} else if fv.Term != nil {
		x.nilCheck(st, fv, "callfn:"+what, pos)
	}
	// site assertions
	x.siteAsserts(st, fr, "call:"+what, pos)
	x.interfere(st, "call "+what)
	// log arguments
	var k *Term
	if label != "" {
		k = st.ghostInt("calls$" + label)
		for ai, a := range args {
			var ts []*Term
			flatten(x.toHeapVal(st, a, nil), &ts)
			var ls []leafInfo
			if a.T != nil {
				leaves(a.T, "", &ls)
			}
			for li, t := range ts {
				name := fmt.Sprintf("arg$%s$%d", label, ai)
				if len(ts) > 1 {
					suffix := fmt.Sprint(li)
					if li < len(ls) {
						suffix = ls[li].Path
					}
					name += "$" + suffix
				}
				arr := st.heapGet("G$"+name, ArrSort(SInt, t.Sort))
				st.Heap["G$"+name] = Store(arr, k, t)
			}
		}
		if method != "" && fv.Term != nil {
			arr := st.heapGet("G$rcv$"+label, ArrSort(SInt, SInt))
			st.Heap["G$rcv$"+label] = Store(arr, k, fv.Term)
		}
		st.setGhost("calls$"+label, Add(k, IntLit(1)))
	}
	if strings.HasPrefix(strings.TrimSpace(behaviour), "function ") {
		// a pure total function of the callee value and its arguments: result == F(callee, args...)
		fname := strings.TrimSpace(strings.TrimPrefix(strings.TrimSpace(behaviour), "function "))
		x.note("ASSUMED: calls through " + what + " behave as the uninterpreted total function " + fname + " of the callee value and its arguments")
		ts := []*Term{fv.Term}
		for _, a := range args {
			flatten(a, &ts)
		}
		var rs []*Val
		for ri := 0; ri < sig.Results().Len(); ri++ {
			rt := sig.Results().At(ri).Type()
			n := "spec$" + fr.Fn.Package().Pkg.Name() + "." + fname
			if ri > 0 {
				n += fmt.Sprintf("$%d", ri)
			}
			r := &Val{T: rt, Term: UF(n, leafSort(rt), ts...)}
			st.assumeValAllocated(r)
			rs = append(rs, r)
		}
		x.bindResult(fr, dst, rs)
		return
	}
	// `callee L = pat : mayset LOC, ...`: the callee may store an arbitrary value to the listed locations (whether it
	// returns or panics), e.g. a handler that replaces the context of the message it was given
	if i := strings.Index(behaviour, "mayset "); i >= 0 {
		locs := strings.TrimSpace(behaviour[i+len("mayset "):])
		x.havocModifies(st, x.envAt(st, fr), &Clause{Kind: "modifies", Text: locs})
		x.note("callee " + what + " may set " + locs + " to any value")
	}
	total := strings.Contains(behaviour, "total") || strings.Contains(behaviour, "nopanic")
	if !total {
		ps := x.fork(st)
		if label != "" {
			arr := ps.heapGet("G$panicked$"+label, ArrSort(SInt, SBool))
			ps.Heap["G$panicked$"+label] = Store(arr, k, True)
		}
		pv := &Val{T: types.NewInterfaceType(nil, nil), Term: Fresh("panicval", SInt)}
		if label != "" {
			arr := ps.heapGet("G$panicval$"+label, ArrSort(SInt, SInt))
			ps.Heap["G$panicval$"+label] = Store(arr, k, pv.Term)
		}
		x.startPanic(ps, pv, "callee "+what+" panics")
	}
	if label != "" {
		arr := st.heapGet("G$panicked$"+label, ArrSort(SInt, SBool))
		st.Heap["G$panicked$"+label] = Store(arr, k, False)
	}
	res := x.bindFresh(st, fr, dst, sig, "ret$"+sanitize(what))
	if label != "" {
		for ri, r := range res {
			var ts []*Term
			flatten(r, &ts)
			var ls []leafInfo
			leaves(r.T, "", &ls)
			for li, t := range ts {
				name := fmt.Sprintf("ret$%s$%d", label, ri)
				if len(ts) > 1 {
					name += "$" + ls[li].Path
				}
				arr := st.heapGet("G$"+name, ArrSort(SInt, t.Sort))
				st.Heap["G$"+name] = Store(arr, k, t)
			}
		}
	}
	st.Trace = append(st.Trace, "call "+what+" returns")
}

// siteAsserts evaluates `assert @SITE#k: e` clauses for the site reached.
func (x *Exec) siteAsserts(st *State, fr *Frame, site string, pos token.Pos) {
	x.siteAssertsWith(st, fr, site, pos, nil)
}

// ghostSets performs `ghost set FIELD(obj) = value @SITE` clauses for the site reached (after the
// site's assertions were evaluated): ghost fields are Int-valued families H$T$#FIELD.
func (x *Exec) ghostSets(st *State, fr *Frame, site string, extra map[string]*Val) {
	if x.FC == nil {
		return
	}
	for _, cl := range x.FC.Of("ghost") {
		if strings.HasPrefix(cl.Text, "mark ") {
			x.ghostMark(st, site, cl, extra)
			continue
		}
		if strings.HasPrefix(cl.Text, "wgdeposit ") || strings.HasPrefix(cl.Text, "wgwithdraw ") {
			x.ghostWgMove(st, site, cl, extra)
			continue
		}
		if strings.HasPrefix(cl.Text, "obliged ") && strings.HasSuffix(cl.Text, " @"+site) {
			// from this site on the thread has to close the channel before it blocks at or below the channel's class
			text := strings.TrimSpace(strings.TrimSuffix(strings.TrimPrefix(cl.Text, "obliged "), "@"+site))
			e, err := ParseExpr(text)
			if err != nil {
				panic(unsupported{err.Error()})
			}
			env := x.envAt(st, st.Frames[0])
			if ov := x.V.eval(env, e); ov != nil && ov.Term != nil {
				x.addWaitOblig(st, waitOblig{"chan", ov.Term, x.classOfText(env, text, x.FC), "the close of " + text})
			}
			continue
		}
		if !strings.HasPrefix(cl.Text, "set ") || !strings.HasSuffix(cl.Text, "@"+site) {
			continue
		}
		body := strings.TrimSpace(strings.TrimSuffix(strings.TrimPrefix(cl.Text, "set "), "@"+site))
		parts := strings.SplitN(body, "=", 2)
		if len(parts) != 2 {
			unsupportedf("ghost set: expected FIELD(obj) = value @SITE")
		}
		lhs, err := ParseExpr(strings.TrimSpace(parts[0]))
		if err != nil || lhs.Kind != "call" || len(lhs.Args) != 2 {
			unsupportedf("ghost set: bad target %q", parts[0])
		}
		rhs, err := ParseExpr(strings.TrimSpace(parts[1]))
		if err != nil {
			panic(unsupported{err.Error()})
		}
		env := x.envAt(st, st.Frames[0])
		for n, v := range extra {
			env.Vars[n] = v
		}
		obj := x.V.eval(env, lhs.Args[1])
		val := x.V.eval(env, rhs)
		ns := namedStruct(pointee(obj.T))
		if ns == nil || obj.Term == nil || val.Term == nil {
			unsupportedf("ghost set: target must be a pointer to a struct, value a scalar")
		}
		key := heapKeyField(ns, "#"+lhs.Args[0].Op)
		srt, _ := x.V.ghostFieldSort(ns, lhs.Args[0].Op)
		if val.Term.Sort != srt {
			unsupportedf("ghost set %s: value of sort %s for a ghost field of sort %s", lhs.Args[0].Op, val.Term.Sort, srt)
		}
		h := st.heapGet(key, ArrSort(SInt, srt))
		st.Heap[key] = Store(h, obj.Term, val.Term)
	}
}

// ghostMark: `ghost mark NAME(a, b) @SITE [when COND]` records the pair in the monotone relation NAME when COND
// holds at the site (a mark therefore means: at some moment this site was passed with COND true for that pair).
func (x *Exec) ghostMark(st *State, site string, cl *Clause, extra map[string]*Val) {
	body := strings.TrimPrefix(cl.Text, "mark ")
	cond := ""
	if i := strings.Index(body, " when "); i >= 0 {
		cond = strings.TrimSpace(body[i+6:])
		body = body[:i]
	}
	i := strings.LastIndex(body, "@")
	if i < 0 || strings.TrimSpace(body[i+1:]) != site {
		return
	}
	lhs, err := ParseExpr(strings.TrimSpace(body[:i]))
	if err != nil || lhs.Kind != "call" || len(lhs.Args) != 3 {
		unsupportedf("ghost mark: expected NAME(a, b) @SITE [when COND]")
	}
	env := x.envAt(st, st.Frames[0])
	env.OldHeap = x.Entry.OldHeap
	for n, v := range extra {
		env.Vars[n] = v
	}
	if site == "return" {
		for n, v := range x.Entry.Params {
			env.Vars[n] = v
		}
	}
	a, b := x.V.eval(env, lhs.Args[1]), x.V.eval(env, lhs.Args[2])
	c := True
	if cond != "" {
		ce, err := ParseExpr(cond)
		if err != nil {
			panic(unsupported{err.Error()})
		}
		c = x.V.evalBool(env, ce)
	}
	fam := "G$mark$" + lhs.Args[0].Op
	srt := ArrSort(SInt, ArrSort(SInt, SBool))
	m := st.heapGet(fam, srt)
	row := Select(m, a.Term)
	st.Heap[fam] = Store(m, a.Term, Store(row, b.Term, Or(Select(row, b.Term), c)))
}

// ghostWgMove: a WaitGroup token that outlives the goroutine that added it is kept in an object:
//   ghost wgdeposit W into OBJ @SITE    the thread gives one of its tokens of W to OBJ (ghost field wgtok of OBJ's type)
//   ghost wgwithdraw W from OBJ @SITE   the thread takes the token OBJ holds
// Both are obligations (a token is owned / OBJ holds one) plus bookkeeping; no token is created or lost.
func (x *Exec) ghostWgMove(st *State, site string, cl *Clause, extra map[string]*Val) {
	deposit := strings.HasPrefix(cl.Text, "wgdeposit ")
	body := strings.TrimPrefix(strings.TrimPrefix(cl.Text, "wgdeposit "), "wgwithdraw ")
	i := strings.LastIndex(body, "@")
	if i < 0 || strings.TrimSpace(body[i+1:]) != site {
		return
	}
	body = strings.TrimSpace(body[:i])
	sep := " from "
	if deposit {
		sep = " into "
	}
	parts := strings.SplitN(body, sep, 2)
	if len(parts) != 2 {
		unsupportedf("ghost %s: expected W%sOBJ @SITE", strings.Fields(cl.Text)[0], sep)
	}
	we, err := ParseExpr(strings.TrimSpace(parts[0]))
	if err != nil {
		panic(unsupported{err.Error()})
	}
	oe, err := ParseExpr(strings.TrimSpace(parts[1]))
	if err != nil {
		panic(unsupported{err.Error()})
	}
	env := x.envAt(st, st.Frames[0])
	for n, v := range extra {
		env.Vars[n] = v
	}
	w := x.refOf(x.V.syncRef(env, we))
	obj := x.V.eval(env, oe)
	ns := namedStruct(pointee(obj.T))
	if ns == nil || obj.Term == nil {
		unsupportedf("ghost wgdeposit/wgwithdraw: the holder must be a pointer to a struct")
	}
	key := heapKeyField(ns, "#wgtok")
	h := st.heapGet(key, ArrSort(SInt, SBool))
	mine := st.ghostArr("wgmine", SInt)
	k := x.site(st, "wgmove:"+site)
	pos := token.NoPos
	if deposit {
		x.oblige(st, "assert", fmt.Sprintf("wgdeposit:token-owned@%s#%d", site, k), Ge(Select(mine, w), IntLit(1)), pos, cl.Text)
		st.setGhostArr("wgmine", Store(mine, w, Sub(Select(mine, w), IntLit(1))))
		st.Heap[key] = Store(h, obj.Term, True)
	} else {
		x.oblige(st, "assert", fmt.Sprintf("wgwithdraw:token-present@%s#%d", site, k), Select(h, obj.Term), pos, cl.Text)
		st.Assume(Ge(Select(mine, w), IntLit(0)))
		st.setGhostArr("wgmine", Store(mine, w, Add(Select(mine, w), IntLit(1))))
		st.Heap[key] = Store(h, obj.Term, False)
	}
}

func (x *Exec) siteAssertsWith(st *State, fr *Frame, site string, pos token.Pos, extra map[string]*Val) {
	defer x.ghostSets(st, fr, site, extra)
	if x.FC == nil {
		return
	}
	if len(st.Frames) != 1 {
		// sites inside closures of the function under contract (deferred closures inlined into it) count too;
		// the assertion is evaluated over the enclosing function's variables
		for _, f := range st.Frames[1:] {
			p := f.Fn.Parent()
			for p != nil && p != x.Fn {
				p = p.Parent()
			}
			if p != x.Fn {
				return
			}
		}
		fr = st.Frames[0]
	}
	k := x.site(st, "site:"+site)
	for _, cl := range x.FC.Of("assert") {
		if cl.Site == site || cl.Site == fmt.Sprintf("%s#%d", site, k) {
			env := x.envAt(st, fr)
			for n, v := range extra {
				env.Vars[n] = v
			}
			g := x.V.evalBool(env, cl.E)
			x.oblige(st, "assert", fmt.Sprintf("assert:%s@%s#%d", cl.Label, site, k), g, pos, cl.Text)
		}
	}
}

// ---- contracts at call sites ----

func (x *Exec) calleeEnv(st *State, callee *ssa.Function, args []*Val, freeVars []*Val) *Env {
	env := &Env{V: x.V, X: x, St: st, Vars: map[string]*Val{}, Fn: callee, Pkg: callee.Package().Pkg, Epoch: st.Epoch, OldEpoch: st.Epoch}
	for k, p := range callee.Params {
		if k < len(args) {
			env.Vars[p.Name()] = args[k]
		}
	}
	if len(callee.Params) == 0 && callee.Signature != nil {
		off := 0
		if r := callee.Signature.Recv(); r != nil {
			off = 1
			if len(args) > 0 {
				env.Vars[r.Name()] = args[0]
				env.Vars["recv"] = args[0]
			}
		}
		ps := callee.Signature.Params()
		for k := 0; k < ps.Len(); k++ {
			if k+off < len(args) {
				env.Vars[ps.At(k).Name()] = args[k+off]
				env.Vars[fmt.Sprintf("arg%d", k)] = args[k+off]
			}
		}
	}
	for k, fv := range callee.FreeVars {
		if k < len(freeVars) {
			if freeVars[k].Cell != nil {
				env.Vars["&"+fv.Name()] = freeVars[k]
			} else {
				env.Vars[fv.Name()] = freeVars[k] // captured struct variable: the name denotes the object
			}
		}
	}
	return env
}

func (x *Exec) applyContract(st *State, fr *Frame, dst ssa.Value, callee *ssa.Function, fc *FuncContract, args []*Val, freeVars []*Val, pos token.Pos, assumed bool) {
	name := callee.RelString(callee.Package().Pkg)
	if assumed {
		name = callee.String()
	}
	k := x.site(st, "call:"+name)
	x.siteAsserts(st, fr, "call:"+name, pos)
	for _, cl := range fc.Of("ghost") {
		if strings.HasPrefix(cl.Text, "label ") {
			x.siteAsserts(st, fr, "call:"+strings.TrimSpace(strings.TrimPrefix(cl.Text, "label ")), pos)
		}
	}
	env := x.calleeEnv(st, callee, args, freeVars)
	if !assumed {
		x.waitCheckCall(st, callee, fc, env, name, pos)
	}
	// a callee entered with a lock held (ghost holds L): the caller holds it and the monitor's invariants hold now
	for _, cl := range fc.Of("ghost") {
		if !strings.HasPrefix(cl.Text, "holds ") {
			continue
		}
		e, err := ParseExpr(strings.TrimPrefix(cl.Text, "holds "))
		if err != nil {
			panic(unsupported{err.Error()})
		}
		lv := x.V.evalLockRef(env, x, st, e)
		id := x.refOf(lv).String()
		oname := fmt.Sprintf("pre:lock-held:%s@call:%s#%d", strings.TrimPrefix(cl.Text, "holds "), name, k)
		if hh, ok := st.Held[id]; ok {
			x.oblige(st, "pre", oname, True, pos, cl.Text)
			x.checkHeldInvariants(st, hh, fmt.Sprintf("call:%s#%d", name, k), pos)
		} else if x.V.entryHeld[id] {
			x.oblige(st, "pre", oname, True, pos, cl.Text)
			for _, hh := range x.V.entryHeldList {
				if hh.ID == id {
					x.checkHeldInvariants(st, hh, fmt.Sprintf("call:%s#%d", name, k), pos)
				}
			}
		} else {
			x.failHard(st, "pre", oname, pos, "the callee's contract says it is entered holding "+cl.Text[6:]+", which the caller does not hold here")
		}
	}
	for _, cl := range fc.Of("requires") {
		g := x.V.evalBool(env, cl.E)
		if x.mayPanic() && strings.HasPrefix(cl.Label, "panics-otherwise") {
			// the callee panics when this precondition fails, and the caller models panics
			if !g.IsTrue() {
				ps := x.fork(st)
				ps.Assume(Not(g))
				pv := &Val{T: types.NewInterfaceType(nil, nil), Term: Fresh("panicval$pre", SInt)}
				x.startPanic(ps, pv, "callee "+name+" panics: "+cl.Text+" violated")
			}
			st.Assume(g)
			continue
		}
		x.oblige(st, "pre", fmt.Sprintf("pre:%s@call:%s#%d", cl.Label, name, k), g, pos, cl.Text)
		st.Assume(g)
	}
	if !fc.Has("pure") && x.V.mayInterfere(callee) {
		x.interfere(st, "call "+name)
	}
	old := copyHeap(st.Heap)
	// havoc modifies
	for _, cl := range fc.Of("modifies") {
		if cl.Loop == 0 {
			x.havocModifies(st, env, cl)
		}
	}
	// ghost call counters the callee's body may advance (and their logs): monotone havoc
	if callee.Blocks != nil {
		var effs []string
		for k := range x.V.ghostEffects(callee) {
			effs = append(effs, k)
		}
		sort.Strings(effs)
		for _, k := range effs {
			oc := st.ghostInt(k)
			nc := Fresh("cnt$"+k, SInt)
			st.Assume(Ge(nc, oc))
			st.setGhost(k, nc)
			lbl := k[strings.Index(k, "$")+1:]
			for _, n := range st.heapNames() {
				if strings.HasPrefix(n, "G$arg$"+lbl+"$") || strings.HasPrefix(n, "G$ret$"+lbl+"$") || strings.HasPrefix(n, "G$panicked$"+lbl) || strings.HasPrefix(n, "G$panicval$"+lbl) || strings.HasPrefix(n, "G$sret$"+lbl+"$") || strings.HasPrefix(n, "G$sarg$"+lbl+"$") || (strings.HasPrefix(k, "spawned$") && (strings.HasPrefix(n, "G$spawnarg$"+lbl+"$") || strings.HasPrefix(n, "G$spawnfv$"+lbl+"$"))) {
					oa := st.Heap[n]
					na := Fresh("log$"+n, oa.Sort)
					i := BoundVar("i", SInt)
					st.Assume(Forall([]*Term{i}, Implies(Lt(i, oc), Eq(Select(na, i), Select(oa, i)))))
					st.Heap[n] = na
				}
			}
		}
	}
	// results
	sig := callee.Signature
	var res []*Val
	allocates := false
	for _, cl := range fc.Of("ensures") {
		if strings.Contains(cl.Text, "fresh(") {
			allocates = true
		}
	}
	for i := 0; i < sig.Results().Len(); i++ {
		v := freshVal(sig.Results().At(i).Type(), "res$"+sanitize(callee.Name()))
		if !allocates {
			st.assumeValAllocated(v)
		}
		res = append(res, v)
	}
	if allocates {
		// the callee may allocate: allocation grows, results are nil or allocated afterwards
		oa := st.ghostArr("alloc", SBool)
		na := Fresh("alloc$after$"+sanitize(callee.Name()), ArrSort(SInt, SBool))
		r := BoundVar("r", SInt)
		st.Assume(Forall([]*Term{r}, Implies(Select(oa, r), Select(na, r))))
		st.setGhostArr("alloc", na)
		for _, v := range res {
			st.assumeValAllocated(v)
		}
	}
	env2 := x.calleeEnv(st, callee, args, freeVars)
	env2.OldHeap = old
	bindResults(env2, sig, res)
	// may panic?
	var pw []*Term
	for _, cl := range fc.Of("panics-when") {
		e0 := x.calleeEnv(st, callee, args, freeVars)
		e0.St = nil
		e0.Heap = old
		e0.OldHeap = old
		pw = append(pw, x.V.evalBool(e0, cl.E))
	}
	if !fc.Has("nopanic") {
		ps := x.fork(st)
		if len(pw) > 0 {
			ps.Assume(Or(pw...))
		}
		penv := x.calleeEnv(ps, callee, args, freeVars)
		penv.OldHeap = old
		for _, cl := range fc.Of("panics-ensures") {
			ps.Assume(x.V.evalBool(penv, cl.E))
		}
		pv := &Val{T: types.NewInterfaceType(nil, nil), Term: Fresh("panicval", SInt)}
		x.startPanic(ps, pv, "callee "+name+" panics")
		if len(pw) > 0 {
			st.Assume(Not(Or(pw...)))
		}
	}
	pcBefore := st.PC[:len(st.PC):len(st.PC)]
	for _, cl := range fc.Of("ensures") {
		st.Assume(x.V.evalBool(env2, cl.E))
	}
	// vacuity guard: a case (antecedent) of a conditional postcondition that was possible before the callee's
	// postconditions were assumed must still be possible afterwards; otherwise the contract constrains state the call
	// does not modify and silently prunes that case in the caller
	for _, cl := range fc.Of("ensures") {
		if cl.E.Kind != "binop" || cl.E.Op != "==>" {
			continue
		}
		ck := name + "|" + cl.Label
		if x.caseCovers == nil {
			x.caseCovers = map[string]int{}
		}
		if x.caseCovers[ck] >= 2 {
			continue
		}
		x.caseCovers[ck]++
		a := x.V.evalBool(env2, cl.E.Args[0])
		if a.IsTrue() || a.IsFalse() {
			continue
		}
		x.Obls = append(x.Obls, &Obligation{Name: fmt.Sprintf("%s#casecover:%s@call:%s#%d", x.V.P.FuncKey(x.Fn), cl.Label, name, k), Kind: "casecover", Func: x.V.P.FuncKey(x.Fn),
			Assumes: append(st.PC[:len(st.PC):len(st.PC)], a), Before: append(pcBefore, a), Goal: False, Pos: x.V.P.Pos(pos), Clause: cl.Text, Trace: st.Trace[:len(st.Trace):len(st.Trace)]})
	}
	// objects the callee guarantees to be fresh are thread-local to the caller until it shares them
	freshRe := regexp.MustCompile(`fresh\((result[0-9]*(?:\.[A-Za-z_][A-Za-z0-9_]*)*)\)`)
	for _, cl := range fc.Of("ensures") {
		for _, m := range freshRe.FindAllStringSubmatch(cl.Text, -1) {
			if e, err := ParseExpr(m[1]); err == nil {
				func() {
					defer func() { recover() }()
					fv := x.V.eval(env2, e)
					if fv.Term != nil && fv.Fields == nil {
						st.FreshRefs[fv.Term.String()] = true
						st.FreshList = append(st.FreshList, fv.Term)
					}
				}()
			}
		}
	}
	x.bindResult(fr, dst, res)
	lbl := name
	for _, cl := range fc.Of("ghost") {
		if strings.HasPrefix(cl.Text, "label ") {
			lbl = strings.TrimSpace(strings.TrimPrefix(cl.Text, "label "))
		}
	}
	n := st.ghostInt("ncalls$" + lbl)
	if lbl != name {
		for ri, r := range res {
			if r.Term != nil && r.Fields == nil {
				arr := st.heapGet(fmt.Sprintf("G$sret$%s$%d", lbl, ri), ArrSort(SInt, r.Term.Sort))
				st.Heap[fmt.Sprintf("G$sret$%s$%d", lbl, ri)] = Store(arr, n, r.Term)
			}
		}
		for ai, a := range args {
			if a.Term != nil && a.Fields == nil {
				arr := st.heapGet(fmt.Sprintf("G$sarg$%s$%d", lbl, ai), ArrSort(SInt, a.Term.Sort))
				st.Heap[fmt.Sprintf("G$sarg$%s$%d", lbl, ai)] = Store(arr, n, a.Term)
			}
		}
	}
	st.setGhost("ncalls$"+lbl, Add(n, IntLit(1)))
	st.Trace = append(st.Trace, "call "+name)
}

func bindResults(env *Env, sig *types.Signature, res []*Val) {
	if len(res) == 1 {
		env.Vars["result"] = res[0]
	}
	for i, r := range res {
		env.Vars[fmt.Sprintf("result%d", i)] = r
		if n := sig.Results().At(i).Name(); n != "" && n != "_" {
			env.Vars[n] = r
		}
	}
}

func copyHeap(h map[string]*Term) map[string]*Term {
	n := make(map[string]*Term, len(h))
	for k, v := range h {
		n[k] = v
	}
	return n
}

// ---- modifies ----

type modItem struct {
	Family string // heap family name, or prefix ending in '*'
	Index  *Term  // nil: whole family
}

// splitTop splits on top-level commas.
func splitTop(s string) []string {
	var out []string
	depth := 0
	start := 0
	for i, c := range s {
		switch c {
		case '(', '[':
			depth++
		case ')', ']':
			depth--
		case ',':
			if depth == 0 {
				out = append(out, strings.TrimSpace(s[start:i]))
				start = i + 1
			}
		}
	}
	if strings.TrimSpace(s[start:]) != "" {
		out = append(out, strings.TrimSpace(s[start:]))
	}
	return out
}

func (x *Exec) modItems(env *Env, cl *Clause) []modItem {
	var items []modItem
	for _, it := range splitTop(cl.Text) {
		switch {
		case it == "nothing":
		case strings.HasSuffix(it, ".*"):
			e, err := ParseExpr(strings.TrimSuffix(it, ".*"))
			if err != nil {
				panic(unsupported{err.Error()})
			}
			v := x.V.eval(env, e)
			ns := namedStruct(pointee(v.T))
			if ns == nil || v.Term == nil {
				unsupportedf("modifies %s: not a pointer to a named struct", it)
			}
			var ls []leafInfo
			leaves(ns, "", &ls)
			for _, l := range ls {
				items = append(items, modItem{heapKeyField(ns, l.Path), v.Term})
			}
		case strings.HasPrefix(it, "closed(") || strings.HasPrefix(it, "chan("):
			inner := it[strings.Index(it, "(")+1 : len(it)-1]
			e, err := ParseExpr(inner)
			if err != nil {
				panic(unsupported{err.Error()})
			}
			v := x.V.eval(env, e)
			items = append(items, modItem{"G$closed", v.Term}, modItem{"G$clen", v.Term})
		case strings.HasPrefix(it, "anymap("):
			// every map of the named map type may change
			mt, ok := x.V.resolveType(env, it[7:len(it)-1]).Underlying().(*types.Map)
			if !ok {
				unsupportedf("modifies %s: not a map type", it)
			}
			regMapSorts(mt)
			hk, lk, vp := mapKeys(mt)
			items = append(items, modItem{hk, nil}, modItem{lk, nil}, modItem{vp + "$*", nil})
		case strings.HasPrefix(it, "map("):
			e, err := ParseExpr(it[4 : len(it)-1])
			if err != nil {
				panic(unsupported{err.Error()})
			}
			v := x.V.eval(env, e)
			mt := v.T.Underlying().(*types.Map)
			hk, lk, vp := mapKeys(mt)
			items = append(items, modItem{hk, v.Term}, modItem{lk, v.Term}, modItem{vp + "$*", v.Term})
		case strings.HasPrefix(it, "wg("):
			e, err := ParseExpr(it[3 : len(it)-1])
			if err != nil {
				panic(unsupported{err.Error()})
			}
			v := x.V.syncRef(env, e)
			items = append(items, modItem{"G$wg", x.refOf(v)}, modItem{"G$wgmine", x.refOf(v)})
			regSort("G$wg", ArrSort(SInt, SInt))
			regSort("G$wgmine", ArrSort(SInt, SInt))
		case strings.HasPrefix(it, "field("):
			// whole heap family of one field of a struct type of this package: field(T.f)
			inner := it[6 : len(it)-1]
			parts := strings.SplitN(inner, ".", 2)
			ns := x.V.namedByName(env.Pkg.Name() + "." + parts[0])
			if ns == nil && len(parts) == 2 {
				// package-qualified: field(pkg.T.f)
				p3 := strings.SplitN(inner, ".", 3)
				if len(p3) == 3 {
					if n2 := x.V.namedByName(p3[0] + "." + p3[1]); n2 != nil {
						ns = n2
						parts = []string{p3[1], p3[2]}
					}
				}
			}
			if ns == nil || len(parts) != 2 {
				unsupportedf("modifies %s: unknown type", it)
			}
			ft := fieldTypeAt(ns, strings.Split(parts[1], "."))
			var ls []leafInfo
			leaves(ft, parts[1], &ls)
			for _, l := range ls {
				regSort(heapKeyField(ns, l.Path), ArrSort(SInt, l.Sort))
				items = append(items, modItem{heapKeyField(ns, l.Path), nil})
			}
		case strings.HasPrefix(it, "ghost("):
			items = append(items, modItem{"G$" + it[6:len(it)-1], nil})
		case strings.HasPrefix(it, "global("):
			items = append(items, modItem{"V$" + env.Pkg.Name() + "." + it[7:len(it)-1] + "$*", nil})
		default:
			// x.f.g : field path of an object
			e, err := ParseExpr(it)
			if err != nil {
				panic(unsupported{err.Error()})
			}
			if e.Kind != "sel" {
				unsupportedf("modifies item %q not understood", it)
			}
			// find the object: longest prefix that evaluates to a pointer-to-struct
			var path []string
			cur := e
			for cur.Kind == "sel" {
				path = append([]string{cur.Op}, path...)
				base := cur.Args[0]
				bv := x.V.eval(env, base)
				if bv.Term != nil && pointee(bv.T) != nil && namedStruct(pointee(bv.T)) != nil {
					ns := namedStruct(pointee(bv.T))
					ft := fieldTypeAt(ns, path)
					var ls []leafInfo
					leaves(ft, strings.Join(path, "."), &ls)
					for _, l := range ls {
						items = append(items, modItem{heapKeyField(ns, l.Path), bv.Term})
					}
					break
				}
				cur = base
			}
		}
	}
	return items
}

func fieldTypeAt(ns *types.Named, path []string) types.Type {
	var t types.Type = ns
	for _, f := range path {
		stt, ok := t.Underlying().(*types.Struct)
		if !ok {
			unsupportedf("field path %v: %s is not a struct", path, t)
		}
		found := false
		for i := 0; i < stt.NumFields(); i++ {
			if stt.Field(i).Name() == f {
				t = stt.Field(i).Type()
				found = true
				break
			}
		}
		if !found {
			unsupportedf("type %s has no field %s", t, f)
		}
	}
	return t
}

func (x *Exec) refOf(v *Val) *Term {
	if v.FP != nil {
		return fpAddr(v.FP)
	}
	if v.Term != nil {
		return v.Term
	}
	unsupportedf("no reference identity for %s", v)
	return nil
}

func (x *Exec) havocModifies(st *State, env *Env, cl *Clause) {
	for _, it := range x.modItems(env, cl) {
		fams := []string{it.Family}
		if strings.HasSuffix(it.Family, "*") {
			fams = nil
			pre := strings.TrimSuffix(it.Family, "*")
			for _, n := range st.heapNames() {
				if strings.HasPrefix(n, pre) {
					fams = append(fams, n)
				}
			}
			for n := range heapSorts {
				if strings.HasPrefix(n, pre) {
					if _, ok := st.Heap[n]; !ok {
						fams = append(fams, n)
					}
				}
			}
			sort.Strings(fams)
		}
		for _, f := range fams {
			srt, ok := heapSorts[f]
			if !ok {
				// family never materialised: materialise from declared leaf sort lazily on use
				continue
			}
			cur := st.heapGet(f, srt)
			if it.Index == nil || !strings.HasPrefix(string(srt), "(Array") {
				st.Heap[f] = Fresh("hv$"+f, srt)
				continue
			}
			_, es := arrParts(srt)
			st.Heap[f] = Store(cur, it.Index, Fresh("hv$"+f, es))
		}
	}
}

// ---- function exit ----

func (x *Exec) exitFunction(st *State, fr *Frame, res []*Val, panicked bool, pos token.Pos) {
	st.Done = true
	x.Exits++
	if x.FC == nil {
		return
	}
	if !panicked {
		x.ghostSets(st, fr, "return", nil)
	}
	env := x.envAt(st, fr)
	env.OldHeap = x.Entry.OldHeap
	for _, cl := range x.FC.Of("ghost") {
		// atomic method: old() denotes the state at the linearization point (first lock acquisition)
		if cl.Text == "atomic" && len(st.LockSnaps) > 0 {
			env.OldHeap = st.LockSnaps[0].Heap
			env.OldEpoch = st.LockSnaps[0].Epoch
		}
	}
	// parameters denote entry values in postconditions
	for n, v := range x.Entry.Params {
		env.Vars[n] = v
	}
	if panicked {
		st.ExitKind = "panic"
		if x.FC.Has("nopanic") {
			x.oblige(st, "nopanic", "nopanic:no-panic-escapes", False, pos, "nopanic")
			return
		}
		for _, cl := range x.FC.Of("panics-when") {
			e0 := *env
			e0.St = nil
			e0.LocalSt = st
			e0.Epoch = env.OldEpoch
			e0.Heap = env.OldHeap
			g := x.V.evalBool(&e0, cl.E)
			x.oblige(st, "post", "panics-only-when:"+cl.Label, g, pos, cl.Text)
		}
		for _, cl := range x.FC.Of("panics-ensures") {
			g := x.V.evalBool(env, cl.E)
			x.oblige(st, "post", "panics-ensures:"+cl.Label, g, pos, cl.Text)
		}
		x.checkHeld(st, pos)
		return
	}
	st.ExitKind = "return"
	bindResults(env, fr.Fn.Signature, res)
	for _, cl := range x.FC.Of("panics-when") {
		e0 := *env
		e0.St = nil
		e0.LocalSt = st
		e0.Epoch = env.OldEpoch
		e0.Heap = env.OldHeap
		g := x.V.evalBool(&e0, cl.E)
		x.oblige(st, "post", "returns-only-when-not:"+cl.Label, Not(g), pos, cl.Text)
	}
	for _, cl := range x.FC.Of("ensures") {
		g := x.V.evalBool(env, cl.E)
		x.oblige(st, "post", "post:"+cl.Label, g, pos, cl.Text)
	}
	x.checkHeld(st, pos)
	x.checkFrame(st, env, pos)
	// objects still thread-local here may leave through the results: their object invariants must hold now
	x.checkObjInvsOnShare(st, "return", pos)
}

// checkHeld: locks acquired by the function must be released at exit unless the contract says otherwise.
func (x *Exec) checkHeld(st *State, pos token.Pos) {
	if len(st.Held) == 0 {
		return
	}
	allowed := map[string]bool{}
	for _, cl := range x.FC.Of("ghost") {
		if strings.HasPrefix(cl.Text, "holds-at-exit ") {
			allowed[strings.TrimSpace(strings.TrimPrefix(cl.Text, "holds-at-exit "))] = true
		}
	}
	for _, id := range sortedHeld(st) {
		h := st.Held[id]
		if h.Borrowed {
			continue
		}
		if h.Mon != nil && allowed[h.Mon.Lock] {
			continue
		}
		if x.Entry != nil && x.entryHeld(id) {
			continue
		}
		x.oblige(st, "lock", "lock:released-at-exit:"+lockName(h), False, pos, "")
	}
}

func (x *Exec) entryHeld(id string) bool { return x.V.entryHeld[id] }

func lockName(h *Held) string {
	if h.Mon != nil {
		return h.Mon.Lock
	}
	return "lock"
}

func sortedHeld(st *State) []string {
	var ids []string
	for id := range st.Held {
		ids = append(ids, id)
	}
	sort.Strings(ids)
	return ids
}

// checkFrame: everything outside the modifies clause is unchanged for objects allocated at entry.
func (x *Exec) checkFrame(st *State, env *Env, pos token.Pos) {
	claimed := false
	for _, cl := range x.FC.Of("modifies") {
		if cl.Loop == 0 {
			claimed = true
		}
	}
	_ = claimed // a contract without a modifies clause means "modifies nothing": the frame is always checked
	if x.Fn.Synthetic == "package initializer" {
		return // the initializer's job is to write the package's globals
	}
	oldEnv := *env
	oldEnv.St = nil
	oldEnv.Epoch = 0
	oldEnv.Heap = x.Entry.OldHeap
	var items []modItem
	for _, cl := range x.FC.Of("modifies") {
		if cl.Loop == 0 {
			items = append(items, x.modItems(&oldEnv, cl)...)
		}
	}
	x.frameObls(st, items, x.Entry.OldHeap, 0, "frame", pos)
}

// frameObls: every family that differs from its value in `old` differs only at the listed indices
// (objects allocated after `old` are exempt).
func (x *Exec) frameObls(st *State, items []modItem, oldHeap map[string]*Term, oldEpoch int, prefix string, pos token.Pos) {
	alloc0 := oldHeap["G$alloc"]
	for _, f := range st.heapNames() {
		cur := st.Heap[f]
		old, ok := oldHeap[f]
		if !ok {
			old = Const(fmt.Sprintf("%s@%d", f, oldEpoch), heapSorts[f])
		}
		if cur == old {
			continue
		}
		if strings.Contains(f, "$#") {
			continue // ghost fields: governed by their monitor's invariant
		}
		if f == "G$alloc" || f == "G$wgmine" || strings.HasPrefix(f, "G$recv") || strings.HasPrefix(f, "G$rcv$") || strings.HasPrefix(f, "G$sen") || strings.HasPrefix(f, "G$spawn") || strings.HasPrefix(f, "G$jsondecoded") || strings.HasPrefix(f, "G$protodecoded") || strings.HasPrefix(f, "G$panicval") || strings.HasPrefix(f, "G$sret$") || strings.HasPrefix(f, "G$sarg$") || strings.HasPrefix(f, "G$cancelled") || strings.HasPrefix(f, "G$ncalls$") || strings.HasPrefix(f, "G$calls$") || strings.HasPrefix(f, "G$arg$") || strings.HasPrefix(f, "G$ret$") || strings.HasPrefix(f, "G$panicked$") || strings.HasPrefix(f, "G$visited$") || strings.HasPrefix(f, "G$spawned") {
			continue
		}
		if x.V.isShared(f) {
			continue // governed by rely/guarantee, not by the frame
		}
		whole := false
		var idxs []*Term
		for _, it := range items {
			match := it.Family == f || (strings.HasSuffix(it.Family, "*") && strings.HasPrefix(f, strings.TrimSuffix(it.Family, "*")))
			if !match {
				continue
			}
			if it.Index == nil {
				whole = true
			} else {
				idxs = append(idxs, it.Index)
			}
		}
		if whole {
			continue
		}
		srt := heapSorts[f]
		short := f
		if !strings.HasPrefix(string(srt), "(Array") {
			x.oblige(st, "frame", prefix+":"+short, Eq(cur, old), pos, "modifies")
			continue
		}
		is, _ := arrParts(srt)
		r := Fresh("frame$r", is)
		var hyp []*Term
		if is == SInt && alloc0 != nil && !strings.HasPrefix(f, "G$") {
			hyp = append(hyp, Select(alloc0, r))
		} else if is == SInt && !strings.HasPrefix(f, "G$") {
			hyp = append(hyp, Select(Const("G$alloc@0", ArrSort(SInt, SBool)), r))
		}
		if strings.HasPrefix(f, "G$") && is == SInt {
			// ghost state of references allocated by this call is exempt as well
			a0 := alloc0
			if a0 == nil {
				a0 = Const("G$alloc@0", ArrSort(SInt, SBool))
			}
			hyp = append(hyp, Select(a0, r))
		}
		for _, ix := range idxs {
			hyp = append(hyp, Neq(r, ix))
		}
		x.oblige(st, "frame", prefix+":"+short, Implies(And(hyp...), Eq(Select(cur, r), Select(old, r))), pos, "modifies")
	}
}

// ---- loops ----

func (x *Exec) loopInvs(l *Loop) []*Clause {
	var out []*Clause
	if x.FC == nil {
		return nil
	}
	for _, cl := range x.FC.Of("inv") {
		if cl.Loop == l.N {
			out = append(out, cl)
		}
	}
	return out
}

func (x *Exec) loopHead(st *State, fr *Frame, l *Loop, from *ssa.BasicBlock) {
	if len(st.Frames) != 1 {
		unsupportedf("loop inside inlined function %s", fr.Fn.Name())
	}
	invs := x.loopInvs(l)
	if x.FC != nil {
		for _, cl := range x.FC.Of("unroll") {
			if strings.TrimSpace(cl.Text) == fmt.Sprintf("loop %d", l.N) {
				return // bounded unrolling requested explicitly (labelled bounded elsewhere)
			}
		}
	}
	env := x.envAt(st, fr)
	back := l.Blocks[from]
	phase := "init"
	if back {
		phase = "step"
	}
	// remember the state at the loop's first arrival: invariants may refer to it as entry(e)
	if !back {
		ne := map[int]loopEntrySnap{}
		for k, v := range st.LoopEntry {
			ne[k] = v
		}
		ne[l.N] = loopEntrySnap{copyHeap(st.Heap), st.Epoch}
		st.LoopEntry = ne
	}
	// ghost lets bound at this loop's first arrival (before the havoc)
	if x.FC != nil && !back {
		for _, cl := range x.FC.Of("ghost") {
			if strings.HasPrefix(cl.Text, "let ") && strings.HasSuffix(cl.Text, fmt.Sprintf("@loop %d", l.N)) {
				body := strings.TrimSuffix(strings.TrimPrefix(cl.Text, "let "), fmt.Sprintf("@loop %d", l.N))
				parts := strings.SplitN(body, "=", 2)
				e, err := ParseExpr(strings.TrimSpace(parts[1]))
				if err != nil {
					panic(unsupported{err.Error()})
				}
				gv := x.V.eval(env, e)
				nm := map[string]*Val{}
				for k, v := range st.GhostLets {
					nm[k] = v
				}
				nm[strings.TrimSpace(parts[0])] = gv
				st.GhostLets = nm
				x.ghostLetTypes[strings.TrimSpace(parts[0])] = gv.T
			}
		}
	}
	if ri := x.autoRangeIndex(st, fr, l); ri != nil {
		x.oblige(st, "inv", fmt.Sprintf("inv:loop%d:auto-rangeindex:%s", l.N, phase), ri, l.Pos, "-1 <= rangeindex < len")
	}
	for _, cl := range invs {
		g := x.V.evalBool(env, cl.E)
		x.oblige(st, "inv", fmt.Sprintf("inv:loop%d:%s:%s", l.N, cl.Label, phase), g, l.Pos, cl.Text)
	}
	var lmods []*Clause
	if x.FC != nil {
		for _, cl := range x.FC.Of("modifies") {
			if cl.Loop == l.N {
				lmods = append(lmods, cl)
			}
		}
	}
	if x.FC != nil && len(lmods) == 0 {
		// the function's own frame is an invariant of each of its loops
		oldEnv := *env
		oldEnv.St = nil
		oldEnv.Epoch = 0
		oldEnv.Heap = x.Entry.OldHeap
		oldEnv.LocalSt = st
		var items []modItem
		ok := true
		func() {
			defer func() {
				if r := recover(); r != nil {
					if _, isU := r.(unsupported); isU {
						ok = false
						return
					}
					panic(r)
				}
			}()
			for _, cl := range x.FC.Of("modifies") {
				if cl.Loop == 0 {
					items = append(items, x.modItems(&oldEnv, cl)...)
				}
			}
		}()
		if ok {
			x.frameObls(st, items, x.Entry.OldHeap, 0, fmt.Sprintf("inv:loop%d:auto-frame:%s", l.N, phase), l.Pos)
			if !back {
				defer func() {
					if st.Done {
						return
					}
					// after the havoc: re-assume the frame for the families that were havocked
					saved := x.Obls
					x.frameObls(st, items, x.Entry.OldHeap, 0, "tmp", l.Pos)
					for _, o := range x.Obls[len(saved):] {
						if !o.Goal.IsTrue() {
							st.Assume(generalizeFrame(o.Goal))
						}
					}
					x.Obls = saved
				}()
			}
		}
	}
	if back {
		if len(lmods) > 0 {
			for i := len(st.LoopSnaps) - 1; i >= 0; i-- {
				if st.LoopSnaps[i].N == l.N {
					x.frameObls(st, st.LoopSnaps[i].Items, st.LoopSnaps[i].Heap, st.LoopSnaps[i].Epoch, fmt.Sprintf("loopframe:loop%d", l.N), l.Pos)
					break
				}
			}
		}
		st.Done = true
		st.ExitKind = "cut"
		return
	}
	// first arrival: havoc everything the loop may modify, then assume the invariant
	if len(lmods) > 0 {
		var items []modItem
		for _, cl := range lmods {
			items = append(items, x.modItems(env, cl)...)
		}
		x.havocLoopCellsOnly(st, fr, l)
		for _, cl := range lmods {
			x.havocModifies(st, env, cl)
		}
		st.LoopSnaps = append(st.LoopSnaps[:len(st.LoopSnaps):len(st.LoopSnaps)], loopSnap{l.N, items, copyHeap(st.Heap), st.Epoch})
	} else {
		x.havocLoop(st, fr, l)
	}
	env = x.envAt(st, fr)
	if ri := x.autoRangeIndex(st, fr, l); ri != nil {
		st.Assume(ri)
	}
	for _, cl := range invs {
		st.Assume(x.V.evalBool(env, cl.E))
	}
	st.Trace = append(st.Trace, fmt.Sprintf("loop%d:head", l.N))
}

type loopSnap struct {
	N     int
	Items []modItem
	Heap  map[string]*Term
	Epoch int
}

func (x *Exec) havocLoopCellsOnly(st *State, fr *Frame, l *Loop) { x.havocLoopImpl(st, fr, l, true) }
func (x *Exec) havocLoop(st *State, fr *Frame, l *Loop)          { x.havocLoopImpl(st, fr, l, false) }

func (x *Exec) havocLoopImpl(st *State, fr *Frame, l *Loop, cellsOnly bool) {
	// cells written in the loop
	fams := map[string]bool{}
	all := false
	for b := range l.Blocks {
		for _, in := range b.Instrs {
			switch i := in.(type) {
			case *ssa.Store:
				if a, ok := i.Addr.(*ssa.Alloc); ok {
					if c := x.cellOf[a]; c != nil {
						if _, live := st.Cells[c]; live {
							v := freshVal(c.T, "loop$"+c.Name)
							st.assumeValAllocated(v)
							st.Cells[c] = v
						}
					}
					continue
				}
				if fv, ok := i.Addr.(*ssa.FreeVar); ok {
					for k, f := range fr.Fn.FreeVars {
						if f == fv && fr.FreeVars[k].Cell != nil {
							c := fr.FreeVars[k].Cell
							v := freshVal(c.T, "loop$"+c.Name)
							st.assumeValAllocated(v)
							st.Cells[c] = v
						}
					}
					continue
				}
				x.storeFamilies(i.Addr, fams)
			case *ssa.MapUpdate:
				mt := i.Map.Type().Underlying().(*types.Map)
				hk, lk, vp := mapKeys(mt)
				fams[hk] = true
				fams[lk] = true
				regMapSorts(mt)
				var mls []leafInfo
				leaves(mt.Elem(), "", &mls)
				for _, ml := range mls {
					fams[vp+"$"+ml.Path] = true
				}
			case *ssa.Call, *ssa.Go, *ssa.Defer:
				var c *ssa.CallCommon
				switch ci := in.(type) {
				case *ssa.Call:
					c = &ci.Call
				case *ssa.Go:
					c = &ci.Call
				case *ssa.Defer:
					unsupportedf("defer inside a loop")
				}
				if b, ok := c.Value.(*ssa.Builtin); ok {
					switch b.Name() {
					case "delete":
						mt := c.Args[0].Type().Underlying().(*types.Map)
						hk, lk, _ := mapKeys(mt)
						regMapSorts(mt)
						fams[hk] = true
						fams[lk] = true
					case "close":
						fams["G$closed"] = true
					case "append", "copy":
						fams["G$alloc"] = true
						for _, n := range st.heapNames() {
							if strings.HasPrefix(n, "S$") {
								fams[n] = true
							}
						}
					}
					continue
				}
				if _, isGo := in.(*ssa.Go); isGo {
					// the started goroutine runs concurrently: what it does is interference, not an effect of this loop;
					// the loop itself only moves the spawn log (and shares what it passes on)
					x.sharedFamilies(st, fams)
					continue
				}
				if !x.staticCallEffects(st, c, fams, 0) {
					all = true
				}
			case *ssa.Send, *ssa.Select:
				x.sharedFamilies(st, fams)
			case *ssa.UnOp:
				if i.Op == token.ARROW {
					x.sharedFamilies(st, fams)
				}
			case *ssa.MakeMap, *ssa.MakeChan, *ssa.MakeSlice, *ssa.MakeClosure, *ssa.Alloc, *ssa.MakeInterface:
				fams["G$alloc"] = true
			}
		}
	}
	if cellsOnly {
		// heap effects are given by the loop-level modifies clause; allocation and ghost logs still move
		keep := map[string]bool{}
		for f := range fams {
			if f == "G$alloc" {
				keep[f] = true
			}
		}
		if all {
			keep["G$alloc"] = true
			for _, n := range st.heapNames() {
				if strings.HasPrefix(n, "G$calls$") || strings.HasPrefix(n, "G$rcv$") || strings.HasPrefix(n, "G$arg$") || strings.HasPrefix(n, "G$ret$") || strings.HasPrefix(n, "G$panicked$") || strings.HasPrefix(n, "G$spawn") || strings.HasPrefix(n, "G$sent$") || strings.HasPrefix(n, "G$sends$") || strings.HasPrefix(n, "G$recv") {
					keep[n] = true
				}
			}
		}
		fams = keep
		all = false
	}
	if all || fams["*"] {
		for _, n := range st.heapNames() {
			fams[n] = true
		}
		st.Epoch++
	}
	needInterf := fams["!interfere"]
	delete(fams, "!interfere")
	var names []string
	for f := range fams {
		names = append(names, f)
	}
	sort.Strings(names)
	if loopShares(l) {
		// the body hands objects to other goroutines (send / go): what was thread-local on first arrival need not be
		// so in a later iteration
		st.FreshRefs = map[string]bool{}
		st.FreshList = nil
	}
	if needInterf {
		defer x.interfere(st, "loop head")
	}
	oldAlloc := st.ghostArr("alloc", SBool)
	for _, f := range names {
		if strings.HasSuffix(f, "*") {
			pre := strings.TrimSuffix(f, "*")
			for _, n := range st.heapNames() {
				if strings.HasPrefix(n, pre) {
					st.Heap[n] = Fresh("lh$"+n, heapSorts[n])
				}
			}
			continue
		}
		if srt, ok := heapSorts[f]; ok {
			if _, live := st.Heap[f]; !live {
				st.heapGet(f, srt)
			}
			st.Heap[f] = Fresh("lh$"+f, srt)
		}
	}
	if fams["G$alloc"] {
		// allocation only grows
		na := st.ghostArr("alloc", SBool)
		r := BoundVar("r", SInt)
		st.Assume(Forall([]*Term{r}, Implies(Select(oldAlloc, r), Select(na, r))))
	}
	// ghost counters only grow
	for _, n := range st.heapNames() {
		if strings.HasPrefix(n, "G$calls$") && fams[n] {
			// the fresh value is >= 0; relation to the pre-loop value comes from the invariant
			st.Assume(Ge(st.Heap[n], IntLit(0)))
		}
	}
	// range iterators of this loop: visited set is havocked too
	for b := range l.Blocks {
		for _, in := range b.Instrs {
			if nx, ok := in.(*ssa.Next); ok {
				if it := x.val(st, fr, nx.Iter); it != nil && it.Iter != nil && it.Iter.Visited != "" {
					st.Heap[it.Iter.Visited] = Fresh("visited", heapSorts[it.Iter.Visited])
					nv := Fresh("nvisited", SInt)
					st.Assume(Ge(nv, IntLit(0)))
					st.Heap[it.Iter.Visited+"$n"] = nv
				}
			}
		}
	}
}

// staticCallEffects adds the heap families a call inside a loop may modify; false = unknown (havoc all).
func (x *Exec) staticCallEffects(st *State, c *ssa.CallCommon, fams map[string]bool, depth int) bool {
	shared := func() { x.sharedFamilies(st, fams) }
	if c == nil {
		shared()
		return true
	}
	return x.staticCallEffects2(st, c, fams, depth, shared)
}

// loopShares: the loop body contains an instruction after which fresh objects count as shared.
func loopShares(l *Loop) bool {
	for b := range l.Blocks {
		for _, in := range b.Instrs {
			switch i := in.(type) {
			case *ssa.Send, *ssa.Go:
				return true
			case *ssa.Select:
				for _, s := range i.States {
					if s.Dir == types.SendOnly {
						return true
					}
				}
			}
		}
	}
	return false
}

func (x *Exec) sharedFamilies(st *State, fams map[string]bool) {
	// ghost logs move; monitor-guarded state and channel/waitgroup ghost state change only by
	// interference (applied once at the loop head, respecting held locks and thread-local objects)
	for _, n := range st.heapNames() {
		if strings.HasPrefix(n, "G$calls$") || strings.HasPrefix(n, "G$rcv$") || strings.HasPrefix(n, "G$arg$") || strings.HasPrefix(n, "G$ret$") || strings.HasPrefix(n, "G$panicked$") || strings.HasPrefix(n, "G$panicval$") || strings.HasPrefix(n, "G$ncalls$") || strings.HasPrefix(n, "G$spawn") || strings.HasPrefix(n, "G$sen") || strings.HasPrefix(n, "G$recv") {
			fams[n] = true
		}
	}
	fams["G$alloc"] = true
	fams["!interfere"] = true
}

func (x *Exec) staticCallEffects2(st *State, c *ssa.CallCommon, fams map[string]bool, depth int, shared func()) bool {
	if c.IsInvoke() {
		shared()
		return true
	}
	callee := c.StaticCallee()
	if callee == nil {
		shared()
		return true
	}
	full := callee.String()
	switch {
	case strings.HasPrefix(full, "(*sync."):
		shared()
		fams["G$wgmine"] = true
		return true
	}
	key := x.V.P.FuncKey(callee)
	fc, ok := x.V.C.Funcs[key]
	if !ok {
		fc, ok = x.V.C.Assumed[full]
	}
	if ok {
		if !fc.Has("pure") {
			shared()
		}
		fams["G$ncalls$"+callee.RelString(callee.Package().Pkg)] = true
		regSort("G$ncalls$"+callee.RelString(callee.Package().Pkg), SInt)
		for k := range x.V.ghostEffects(callee) {
			regSort("G$"+k, SInt)
			fams["G$"+k] = true
			lbl := k[strings.Index(k, "$")+1:]
			for _, n := range st.heapNames() {
				if strings.HasPrefix(n, "G$arg$"+lbl+"$") || strings.HasPrefix(n, "G$ret$"+lbl+"$") || strings.HasPrefix(n, "G$panicked$"+lbl) || strings.HasPrefix(n, "G$panicval$"+lbl) || strings.HasPrefix(n, "G$sret$"+lbl+"$") || strings.HasPrefix(n, "G$sarg$"+lbl+"$") || (strings.HasPrefix(k, "spawned$") && (strings.HasPrefix(n, "G$spawnarg$"+lbl+"$") || strings.HasPrefix(n, "G$spawnfv$"+lbl+"$"))) {
					fams[n] = true
				}
			}
		}
		for _, cl := range fc.Of("ghost") {
			if strings.HasPrefix(cl.Text, "label ") {
				lbl := strings.TrimSpace(strings.TrimPrefix(cl.Text, "label "))
				regSort("G$ncalls$"+lbl, SInt)
				fams["G$ncalls$"+lbl] = true
				for _, n := range st.heapNames() {
					if strings.HasPrefix(n, "G$sret$"+lbl+"$") || strings.HasPrefix(n, "G$sarg$"+lbl+"$") {
						fams[n] = true
					}
				}
			}
		}
		for _, cl := range fc.Of("modifies") {
			if cl.Loop != 0 {
				continue
			}
			if !x.staticModFamilies(callee, cl, fams) {
				return false
			}
		}
		return true
	}
	if callee.Blocks != nil && callee.Package() != nil && strings.HasPrefix(callee.Package().Pkg.Path(), modulePath) && depth < 3 {
		// would be inlined: scan its body
		for _, b := range callee.Blocks {
			for _, in := range b.Instrs {
				switch i := in.(type) {
				case *ssa.Store:
					if _, ok := i.Addr.(*ssa.Alloc); ok {
						continue
					}
					x.storeFamilies(i.Addr, fams)
				case *ssa.MapUpdate:
					mt := i.Map.Type().Underlying().(*types.Map)
					hk, lk, vp := mapKeys(mt)
					regMapSorts(mt)
					fams[hk] = true
					fams[lk] = true
					var mls []leafInfo
					leaves(mt.Elem(), "", &mls)
					for _, ml := range mls {
						fams[vp+"$"+ml.Path] = true
					}
				case *ssa.Call:
					if bi, ok := i.Call.Value.(*ssa.Builtin); ok {
						if bi.Name() == "close" {
							fams["G$closed"] = true
						} else if bi.Name() == "delete" || bi.Name() == "append" || bi.Name() == "copy" {
							return false
						}
						continue
					}
					if !x.staticCallEffects(st, &i.Call, fams, depth+1) {
						return false
					}
				case *ssa.Go, *ssa.Send, *ssa.Select, *ssa.Defer:
					return false
				case *ssa.MakeMap, *ssa.MakeChan, *ssa.MakeSlice, *ssa.MakeClosure, *ssa.Alloc, *ssa.MakeInterface:
					fams["G$alloc"] = true
				}
			}
		}
		return true
	}
	// external without contract: assumed effect-free (listed as such when executed)
	return true
}

// staticModFamilies resolves the heap families named by a modifies clause from types alone.
func (x *Exec) staticModFamilies(callee *ssa.Function, cl *Clause, fams map[string]bool) bool {
	pkg := callee.Package().Pkg
	typeOfIdent := func(name string) types.Type {
		sig := callee.Signature
		if r := sig.Recv(); r != nil && r.Name() == name {
			return r.Type()
		}
		for k := 0; k < sig.Params().Len(); k++ {
			if sig.Params().At(k).Name() == name {
				return sig.Params().At(k).Type()
			}
		}
		for k := 0; k < sig.Results().Len(); k++ {
			if sig.Results().At(k).Name() == name {
				return sig.Results().At(k).Type()
			}
		}
		if name == "result" && sig.Results().Len() == 1 {
			return sig.Results().At(0).Type()
		}
		return nil
	}
	var typeOf func(e *Expr) types.Type
	typeOf = func(e *Expr) types.Type {
		switch e.Kind {
		case "ident":
			return typeOfIdent(e.Op)
		case "sel":
			bt := typeOf(e.Args[0])
			if bt == nil {
				return nil
			}
			if p := pointee(bt); p != nil {
				bt = p
			}
			stt, ok := bt.Underlying().(*types.Struct)
			if !ok {
				return nil
			}
			for i := 0; i < stt.NumFields(); i++ {
				if stt.Field(i).Name() == e.Op {
					return stt.Field(i).Type()
				}
			}
		case "index":
			bt := typeOf(e.Args[0])
			if bt == nil {
				return nil
			}
			switch u := bt.Underlying().(type) {
			case *types.Slice:
				return u.Elem()
			case *types.Map:
				return u.Elem()
			}
		}
		return nil
	}
	for _, it := range splitTop(cl.Text) {
		switch {
		case it == "nothing":
		case strings.HasPrefix(it, "field("):
			inner := it[6 : len(it)-1]
			parts := strings.SplitN(inner, ".", 2)
			ns := x.V.namedByName(pkg.Name() + "." + parts[0])
			if ns == nil && len(parts) == 2 {
				p3 := strings.SplitN(inner, ".", 3)
				if len(p3) == 3 {
					if n2 := x.V.namedByName(p3[0] + "." + p3[1]); n2 != nil {
						ns = n2
						parts = []string{p3[1], p3[2]}
					}
				}
			}
			if ns == nil || len(parts) != 2 {
				return false
			}
			ft := fieldTypeAt(ns, strings.Split(parts[1], "."))
			var ls []leafInfo
			leaves(ft, parts[1], &ls)
			for _, l := range ls {
				regSort(heapKeyField(ns, l.Path), ArrSort(SInt, l.Sort))
				fams[heapKeyField(ns, l.Path)] = true
			}
		case strings.HasPrefix(it, "closed(") || strings.HasPrefix(it, "chan("):
			fams["G$closed"] = true
			fams["G$clen"] = true
		case strings.HasPrefix(it, "wg("):
			fams["G$wg"] = true
			fams["G$wgmine"] = true
		case strings.HasPrefix(it, "ghost("):
			fams["G$"+it[6:len(it)-1]] = true
		case strings.HasPrefix(it, "global("):
			fams["V$"+pkg.Name()+"."+it[7:len(it)-1]+"$*"] = true
		case strings.HasPrefix(it, "anymap("):
			return false
		case strings.HasPrefix(it, "map("):
			e, err := ParseExpr(it[4 : len(it)-1])
			if err != nil {
				return false
			}
			t := typeOf(e)
			if t == nil {
				return false
			}
			mt, ok := t.Underlying().(*types.Map)
			if !ok {
				return false
			}
			regMapSorts(mt)
			hk, lk, vp := mapKeys(mt)
			fams[hk] = true
			fams[lk] = true
			var mls []leafInfo
			leaves(mt.Elem(), "", &mls)
			for _, ml := range mls {
				fams[vp+"$"+ml.Path] = true
			}
		default:
			star := strings.HasSuffix(it, ".*")
			e, err := ParseExpr(strings.TrimSuffix(it, ".*"))
			if err != nil {
				return false
			}
			if star {
				t := typeOf(e)
				if t == nil || pointee(t) == nil || namedStruct(pointee(t)) == nil {
					return false
				}
				ns := namedStruct(pointee(t))
				var ls []leafInfo
				leaves(ns, "", &ls)
				for _, l := range ls {
					regSort(heapKeyField(ns, l.Path), ArrSort(SInt, l.Sort))
					fams[heapKeyField(ns, l.Path)] = true
				}
				continue
			}
			// x.f.g: find the longest prefix that is a pointer to a named struct
			var path []string
			cur := e
			done := false
			for cur.Kind == "sel" {
				path = append([]string{cur.Op}, path...)
				bt := typeOf(cur.Args[0])
				if bt != nil && pointee(bt) != nil && namedStruct(pointee(bt)) != nil {
					ns := namedStruct(pointee(bt))
					ft := fieldTypeAt(ns, path)
					var ls []leafInfo
					leaves(ft, strings.Join(path, "."), &ls)
					for _, l := range ls {
						regSort(heapKeyField(ns, l.Path), ArrSort(SInt, l.Sort))
						fams[heapKeyField(ns, l.Path)] = true
					}
					done = true
					break
				}
				cur = cur.Args[0]
			}
			if !done {
				return false
			}
		}
	}
	return true
}

func (x *Exec) storeFamilies(addr ssa.Value, fams map[string]bool) {
	switch a := addr.(type) {
	case *ssa.FieldAddr:
		// find root object type and path
		var path []string
		cur := ssa.Value(a)
		for {
			fa, ok := cur.(*ssa.FieldAddr)
			if !ok {
				break
			}
			stt := pointee(fa.X.Type()).Underlying().(*types.Struct)
			path = append([]string{stt.Field(fa.Field).Name()}, path...)
			cur = fa.X
		}
		ns := namedStruct(pointee(cur.Type()))
		if ns == nil {
			fams["*"] = true
			return
		}
		ft := fieldTypeAt(ns, path)
		var ls []leafInfo
		leaves(ft, strings.Join(path, "."), &ls)
		for _, l := range ls {
			fams[heapKeyField(ns, l.Path)] = true
			regSort(heapKeyField(ns, l.Path), ArrSort(SInt, l.Sort))
		}
	case *ssa.IndexAddr:
		var et types.Type
		if pt := pointee(a.X.Type()); pt != nil {
			et = pt.Underlying().(*types.Array).Elem()
		} else {
			et = a.X.Type().Underlying().(*types.Slice).Elem()
		}
		fams[sliceHeapKey(et, "")+"*"] = true
		var ls []leafInfo
		leaves(et, "", &ls)
		for _, l := range ls {
			fams[sliceHeapKey(et, l.Path)] = true
			regSort(sliceHeapKey(et, l.Path), ArrSort(SInt, ArrSort(SInt, l.Sort)))
		}
	case *ssa.Global:
		fams["V$"+a.Pkg.Pkg.Name()+"."+a.Name()+"$*"] = true
	default:
		// store through an arbitrary pointer
		et := pointee(addr.Type())
		if ns := namedStruct(et); ns != nil {
			var ls []leafInfo
			leaves(ns, "", &ls)
			for _, l := range ls {
				fams[heapKeyField(ns, l.Path)] = true
				regSort(heapKeyField(ns, l.Path), ArrSort(SInt, l.Sort))
			}
			return
		}
		var ls []leafInfo
		leaves(et, "", &ls)
		for _, l := range ls {
			fams["B$"+typeName(et)+"$"+l.Path] = true
			regSort("B$"+typeName(et)+"$"+l.Path, ArrSort(SInt, l.Sort))
		}
	}
}

func regSort(name string, s Sort) {
	if old, ok := heapSorts[name]; ok && old != s {
		panic(fmt.Sprintf("heap family %s registered with sorts %s and %s", name, old, s))
	}
	heapSorts[name] = s
}

func regMapSorts(mt *types.Map) {
	hk, lk, vp := mapKeys(mt)
	ks := leafSort(mt.Key())
	regSort(hk, ArrSort(SInt, ArrSort(ks, SBool)))
	regSort(lk, ArrSort(SInt, SInt))
	var ls []leafInfo
	leaves(mt.Elem(), "", &ls)
	for _, l := range ls {
		regSort(vp+"$"+l.Path, ArrSort(SInt, ArrSort(ks, l.Sort)))
	}
}

// autoRangeIndex: for `for i := range slice` loops go/ssa keeps a hidden index cell; its bounds are an
// invariant of every such loop (proved like any other: init and step obligations).
func (x *Exec) autoRangeIndex(st *State, fr *Frame, l *Loop) *Term {
	if l.Header.Comment != "rangeindex.loop" {
		return nil
	}
	var cell *Cell
	var lenT *Term
	for _, in := range l.Header.Instrs {
		switch i := in.(type) {
		case *ssa.Store:
			if a, ok := i.Addr.(*ssa.Alloc); ok && a.Comment == "rangeindex" {
				cell = x.cellOf[a]
			}
		case *ssa.BinOp:
			if i.Op == token.LSS {
				if v, ok := fr.Regs[i.Y]; ok && v.Term != nil {
					lenT = v.Term
				}
			}
		}
	}
	if cell == nil || lenT == nil {
		return nil
	}
	cv, ok := st.Cells[cell]
	if !ok || cv.Term == nil {
		return nil
	}
	return And(Ge(cv.Term, IntLit(-1)), Lt(cv.Term, lenT), Ge(lenT, IntLit(0)))
}

// applyIfaceContract: an assumed contract of an interface method of a dependency (e.g. context.Context.Value).
func (x *Exec) applyIfaceContract(st *State, fr *Frame, dst ssa.Value, c *ssa.CallCommon, fc *FuncContract, recv *Val, args []*Val, pos token.Pos) {
	name := typeName(c.Value.Type()) + "." + c.Method.Name()
	x.note("assume-contract iface:" + name)
	x.nilCheck(st, recv, "invoke:"+name, pos)
	sig := c.Signature()
	mkEnv := func() *Env {
		env := &Env{V: x.V, X: x, St: st, Vars: map[string]*Val{}, Pkg: c.Method.Pkg(), Epoch: st.Epoch, OldEpoch: st.Epoch}
		if env.Pkg == nil {
			env.Pkg = fr.Fn.Package().Pkg
		}
		env.Vars["recv"] = recv
		for k := 0; k < sig.Params().Len() && k < len(args); k++ {
			env.Vars[sig.Params().At(k).Name()] = args[k]
			env.Vars[fmt.Sprintf("arg%d", k)] = args[k]
		}
		return env
	}
	if !fc.Has("pure") {
		x.interfere(st, "call "+name)
	}
	old := copyHeap(st.Heap)
	var res []*Val
	for i := 0; i < sig.Results().Len(); i++ {
		v := freshVal(sig.Results().At(i).Type(), "res$"+sanitize(c.Method.Name()))
		st.assumeValAllocated(v)
		res = append(res, v)
	}
	env := mkEnv()
	env.OldHeap = old
	bindResults(env, sig, res)
	if !fc.Has("nopanic") {
		ps := x.fork(st)
		pv := &Val{T: types.NewInterfaceType(nil, nil), Term: Fresh("panicval", SInt)}
		x.startPanic(ps, pv, "callee "+name+" panics")
	}
	for _, cl := range fc.Of("ensures") {
		st.Assume(x.V.evalBool(env, cl.E))
	}
	x.bindResult(fr, dst, res)
}

// generalizeFrame turns a frame goal stated for a fresh constant frame$r!k into the universally
// quantified statement (used when the frame is assumed as a loop invariant).
func generalizeFrame(g *Term) *Term {
	var rc *Term
	seen := map[*Term]bool{}
	var find func(t *Term)
	find = func(t *Term) {
		if rc != nil || seen[t] {
			return
		}
		seen[t] = true
		if t.Kind == kConst && strings.HasPrefix(strings.Trim(t.Op, "|"), "frame$r!") {
			rc = t
			return
		}
		for _, a := range t.Args {
			find(a)
		}
	}
	find(g)
	if rc == nil {
		return g
	}
	bv := BoundVar("r", rc.Sort)
	return Forall([]*Term{bv}, Subst(g, map[string]*Term{rc.Op: bv}))
}

// havocArgTargets: an unmodelled external callee may write through its slice, pointer and map arguments.
func (x *Exec) havocArgTargets(st *State, args []*Val) {
	for _, a := range args {
		if a == nil || a.T == nil {
			continue
		}
		switch t := a.T.Underlying().(type) {
		case *types.Slice:
			if a.Fields == nil {
				continue
			}
			if b, ok := t.Elem().Underlying().(*types.Interface); ok && b != nil {
				continue // variadic ...interface{} packs: opaque values
			}
			var ls []leafInfo
			leaves(t.Elem(), "", &ls)
			for _, l := range ls {
				key := sliceHeapKey(t.Elem(), l.Path)
				h := st.heapGet(key, ArrSort(SInt, ArrSort(SInt, l.Sort)))
				st.Heap[key] = Store(h, a.Fields[0].Term, Fresh("extw$"+key, ArrSort(SInt, l.Sort)))
			}
		case *types.Pointer:
			if a.Term == nil || a.Cell != nil || a.FP != nil {
				continue
			}
			if ns := namedStruct(t.Elem()); ns != nil {
				if strings.HasPrefix(typeName(ns), "sync.") {
					continue
				}
				var ls []leafInfo
				leaves(ns, "", &ls)
				for _, l := range ls {
					key := heapKeyField(ns, l.Path)
					h := st.heapGet(key, ArrSort(SInt, l.Sort))
					st.Heap[key] = Store(h, a.Term, Fresh("extw$"+key, l.Sort))
				}
			}
		case *types.Map:
			if a.Term == nil {
				continue
			}
			regMapSorts(t)
			hk, lk, vp := mapKeys(t)
			fams := []string{hk, lk}
			var mls []leafInfo
			leaves(t.Elem(), "", &mls)
			for _, ml := range mls {
				fams = append(fams, vp+"$"+ml.Path)
			}
			for _, f := range fams {
				h := st.heapGet(f, heapSorts[f])
				_, es := arrParts(heapSorts[f])
				st.Heap[f] = Store(h, a.Term, Fresh("extw$"+f, es))
			}
		}
	}
}
