package main

import (
	"go/constant"
	"go/types"

	"golang.org/x/tools/go/ssa"
)

// Float64/BV64 mode (//@ arith bv64): filled in by floatmode support; see fm*.

func fmConst(t types.Type, v constant.Value) *Term {
	unsupportedf("bv64 mode constant")
	return nil
}
func fmNeg(t *Term) *Term { unsupportedf("bv64 mode neg"); return nil }
func (x *Exec) fmBinop(st *State, i *ssa.BinOp, a, b *Val) *Val {
	unsupportedf("bv64 mode binop")
	return nil
}
func (x *Exec) fmConvert(st *State, i *ssa.Convert, v *Val) *Val {
	unsupportedf("bv64 mode convert")
	return nil
}
