package main

// Symbolic values and state.

import (
	"fmt"
	"go/types"
	"sort"
	"strings"

	"golang.org/x/tools/go/ssa"
)

type Cell struct {
	ID   int
	T    types.Type
	Name string
	Site ssa.Instruction // the Alloc (nil for synthetic)
}

type FieldPtr struct {
	Base *Term      // Ref of the object
	Root *types.Named // struct type of the object
	Path []string   // field path inside the object
	T    types.Type // type of the pointed-to location
}

type ElemPtr struct {
	Base *Term // slice backing ref
	Idx  *Term
	Elem types.Type
	Path []string // field path inside the element (for slices of structs)
}

type Closure struct {
	Fn       *ssa.Function
	Bindings []*Val
	Bound    *Val // receiver for bound method closures
}

type RangeIter struct {
	ID      int
	Map     *Val // map value being iterated (nil for string)
	KeySort Sort
	Visited string // heap key of the visited-set array
}

type Val struct {
	T      types.Type
	Term   *Term
	Fields []*Val
	Cell   *Cell
	FP     *FieldPtr
	EP     *ElemPtr
	Clo    *Closure
	Iter   *RangeIter
	Fn     *ssa.Function
	Glob   *ssa.Global
}

func (v *Val) String() string {
	if v == nil {
		return "<nil-val>"
	}
	switch {
	case v.Cell != nil:
		return fmt.Sprintf("&cell%d(%s)", v.Cell.ID, v.Cell.Name)
	case v.FP != nil:
		return fmt.Sprintf("&%s.%s", v.FP.Base, strings.Join(v.FP.Path, "."))
	case v.Term != nil:
		return v.Term.String()
	case v.Fields != nil:
		var ss []string
		for _, f := range v.Fields {
			ss = append(ss, f.String())
		}
		return "{" + strings.Join(ss, ", ") + "}"
	}
	return "<val>"
}

// ---- type classification ----

const (
	shLeaf = iota
	shStruct
	shSlice
	shTuple
	shArray
	shUnsupported
)

func shapeOf(t types.Type) int {
	switch u := t.Underlying().(type) {
	case *types.Basic, *types.Pointer, *types.Chan, *types.Map, *types.Signature, *types.Interface:
		return shLeaf
	case *types.Struct:
		return shStruct
	case *types.Slice:
		return shSlice
	case *types.Tuple:
		return shTuple
	case *types.Array:
		return shArray
	default:
		_ = u
		if _, ok := t.(*types.TypeParam); ok {
			return shLeaf
		}
		return shUnsupported
	}
}

var floatMode = false // bv64/Float64 mode for the function being verified

func leafSort(t types.Type) Sort {
	switch u := t.Underlying().(type) {
	case *types.Basic:
		info := u.Info()
		switch {
		case info&types.IsBoolean != 0:
			return SBool
		case info&types.IsString != 0:
			return SStr
		case info&types.IsFloat != 0:
			if floatMode {
				return SF64
			}
			return SReal
		case info&types.IsInteger != 0:
			if floatMode {
				return SBV64
			}
			return SInt
		case u.Kind() == types.UnsafePointer || u.Kind() == types.UntypedNil:
			return SInt
		case info&types.IsComplex != 0:
			return SReal
		}
	}
	return SInt // references
}

func typeName(t types.Type) string {
	switch x := t.(type) {
	case *types.Named:
		o := x.Obj()
		n := o.Name()
		if x.TypeArgs() != nil && x.TypeArgs().Len() > 0 {
			var as []string
			for i := 0; i < x.TypeArgs().Len(); i++ {
				as = append(as, typeName(x.TypeArgs().At(i)))
			}
			n += "[" + strings.Join(as, ",") + "]"
		}
		if o.Pkg() != nil {
			return o.Pkg().Name() + "." + n
		}
		return n
	case *types.Alias:
		return typeName(types.Unalias(x))
	case *types.Pointer:
		return "*" + typeName(x.Elem())
	case *types.Slice:
		return "[]" + typeName(x.Elem())
	case *types.Basic:
		switch x.Kind() {
		case types.Uint8:
			return "uint8" // byte
		case types.Int32:
			return "int32" // rune
		}
		return x.Name()
	case *types.Map:
		return "map[" + typeName(x.Key()) + "]" + typeName(x.Elem())
	case *types.Chan:
		return "chan " + typeName(x.Elem())
	case *types.Struct:
		if x.NumFields() == 0 {
			return "struct{}"
		}
		var fs []string
		for i := 0; i < x.NumFields(); i++ {
			fs = append(fs, x.Field(i).Name()+" "+typeName(x.Field(i).Type()))
		}
		return "struct{" + strings.Join(fs, ";") + "}"
	case *types.Interface:
		if x.Empty() {
			return "any"
		}
		return "iface"
	case *types.Signature:
		return "func"
	}
	return strings.ReplaceAll(t.String(), " ", "_")
}

type leafInfo struct {
	Path string
	Sort Sort
	T    types.Type
}

// leaves flattens a type into its leaf paths.
func leaves(t types.Type, prefix string, out *[]leafInfo) {
	switch shapeOf(t) {
	case shLeaf:
		*out = append(*out, leafInfo{prefix, leafSort(t), t})
	case shStruct:
		st := t.Underlying().(*types.Struct)
		for i := 0; i < st.NumFields(); i++ {
			f := st.Field(i)
			leaves(f.Type(), joinPath(prefix, f.Name()), out)
		}
	case shSlice:
		*out = append(*out, leafInfo{joinPath(prefix, "base"), SInt, nil}, leafInfo{joinPath(prefix, "len"), SInt, nil})
	case shArray:
		*out = append(*out, leafInfo{joinPath(prefix, "arr"), SInt, nil})
	case shTuple:
		tp := t.Underlying().(*types.Tuple)
		for i := 0; i < tp.Len(); i++ {
			leaves(tp.At(i).Type(), joinPath(prefix, fmt.Sprintf("#%d", i)), out)
		}
	default:
		*out = append(*out, leafInfo{prefix, SInt, t})
	}
}

func joinPath(a, b string) string {
	if a == "" {
		return b
	}
	return a + "." + b
}

var strEmpty = Const("str!empty", SStr)

var strLits = map[string]*Term{}
var strLitOrder []string

func StrLit(s string) *Term {
	if s == "" {
		return strEmpty
	}
	if t, ok := strLits[s]; ok {
		return t
	}
	name := "str!" + sanitize(s)
	if len(name) > 40 {
		name = name[:40]
	}
	name = fmt.Sprintf("%s!%d", name, len(strLits))
	t := Const(name, SStr)
	strLits[s] = t
	strLitOrder = append(strLitOrder, s)
	return t
}

func sanitize(s string) string {
	var b strings.Builder
	for _, c := range s {
		if c >= 'a' && c <= 'z' || c >= 'A' && c <= 'Z' || c >= '0' && c <= '9' || c == '_' {
			b.WriteRune(c)
		} else {
			b.WriteRune('_')
		}
	}
	return b.String()
}

func zeroLeaf(s Sort) *Term {
	switch s {
	case SInt:
		return IntLit(0)
	case SBool:
		return False
	case SStr:
		return strEmpty
	case SReal:
		return mk(kLit, "0.0", SReal)
	case SBV64:
		return mk(kLit, "#x0000000000000000", SBV64)
	case SF64:
		return mk(kLit, "(_ +zero 11 53)", SF64)
	}
	panic("zeroLeaf: " + string(s))
}

func zeroVal(t types.Type) *Val {
	switch shapeOf(t) {
	case shLeaf:
		return &Val{T: t, Term: zeroLeaf(leafSort(t))}
	case shStruct:
		st := t.Underlying().(*types.Struct)
		v := &Val{T: t}
		for i := 0; i < st.NumFields(); i++ {
			v.Fields = append(v.Fields, zeroVal(st.Field(i).Type()))
		}
		if st.NumFields() == 0 {
			v.Fields = []*Val{}
		}
		return v
	case shSlice:
		return &Val{T: t, Fields: []*Val{{Term: IntLit(0)}, {Term: IntLit(0)}}}
	case shTuple:
		tp := t.Underlying().(*types.Tuple)
		v := &Val{T: t, Fields: []*Val{}}
		for i := 0; i < tp.Len(); i++ {
			v.Fields = append(v.Fields, zeroVal(tp.At(i).Type()))
		}
		return v
	}
	return &Val{T: t, Term: IntLit(0)}
}

// freshVal builds a value of type t from fresh constants.
func freshVal(t types.Type, name string) *Val {
	switch shapeOf(t) {
	case shLeaf:
		return &Val{T: t, Term: Fresh(name, leafSort(t))}
	case shStruct:
		st := t.Underlying().(*types.Struct)
		v := &Val{T: t, Fields: []*Val{}}
		for i := 0; i < st.NumFields(); i++ {
			v.Fields = append(v.Fields, freshVal(st.Field(i).Type(), name+"."+st.Field(i).Name()))
		}
		return v
	case shSlice:
		return &Val{T: t, Fields: []*Val{{Term: Fresh(name+".base", SInt)}, {Term: Fresh(name+".len", SInt)}}}
	case shTuple:
		tp := t.Underlying().(*types.Tuple)
		v := &Val{T: t, Fields: []*Val{}}
		for i := 0; i < tp.Len(); i++ {
			v.Fields = append(v.Fields, freshVal(tp.At(i).Type(), fmt.Sprintf("%s#%d", name, i)))
		}
		return v
	}
	return &Val{T: t, Term: Fresh(name, SInt)}
}

// flatten a value into leaf terms in the order of leaves(t).
func flatten(v *Val, out *[]*Term) {
	if v.Term != nil && v.Fields == nil {
		*out = append(*out, v.Term)
		return
	}
	for _, f := range v.Fields {
		flatten(f, out)
	}
}

// unflatten builds a Val of type t from leaf terms.
func unflatten(t types.Type, ts []*Term, i *int) *Val {
	switch shapeOf(t) {
	case shStruct:
		st := t.Underlying().(*types.Struct)
		v := &Val{T: t, Fields: []*Val{}}
		for k := 0; k < st.NumFields(); k++ {
			v.Fields = append(v.Fields, unflatten(st.Field(k).Type(), ts, i))
		}
		return v
	case shSlice:
		v := &Val{T: t, Fields: []*Val{{Term: ts[*i]}, {Term: ts[*i+1]}}}
		*i += 2
		return v
	case shTuple:
		tp := t.Underlying().(*types.Tuple)
		v := &Val{T: t, Fields: []*Val{}}
		for k := 0; k < tp.Len(); k++ {
			v.Fields = append(v.Fields, unflatten(tp.At(k).Type(), ts, i))
		}
		return v
	}
	v := &Val{T: t, Term: ts[*i]}
	*i++
	return v
}

// ---- state ----

type Deferred struct {
	Call  *ssa.CallCommon
	Args  []*Val
	Fn    *Val // callee value (closure / function)
	Instr ssa.Instruction
}

type Frame struct {
	Fn      *ssa.Function
	Regs    map[ssa.Value]*Val
	Blk     *ssa.BasicBlock
	Idx     int
	Prev    *ssa.BasicBlock
	Defers  []*Deferred
	Unwinding bool            // a panic is propagating through this frame
	Draining  int             // 0 no, 1 rundefers instr, 2 panic unwinding
	IsDeferCall bool          // frame was started by the defer mechanism (recover allowed)
	RetTo   ssa.Value         // call instruction value in the caller to bind on return (nil: discard)
	FreeVars []*Val
	LoopSeen map[*ssa.BasicBlock]bool // loop headers already cut in this frame
	Results  *Val // set at return
}

type Held struct {
	ID     string
	Base   *Term
	TC     *TypeContract
	Mon    *Monitor
	Read   bool
	Root   *types.Named
	Class  string // wait class (waitlevel.go)
	Borrowed bool // held by the goroutine that started this one (ghost borrows): protects against other threads' adds only
}

type State struct {
	PC      []*Term
	Frames  []*Frame
	Cells   map[*Cell]*Val
	Heap    map[string]*Term
	Held    map[string]*Held
	FreshRefs map[string]bool
	FreshTypes map[string]*types.Named // struct type of fresh references (for object invariants)
	Escaped   []escapedRef // objects handed to code outside the function through a channel: their receiver may edit them at any time
	TokenSubject map[string]*Term // WaitGroup (term key) -> subject the token this goroutine holds is bound to
	Lent      []string // locks lent to goroutines this function started (ghost borrows)
	Oblig     []waitOblig // what this thread has to signal before it may block on lower classes (waitlevel.go)
	Owned     []*Term // channels this goroutine alone may close (ghost owns): exempt from interference, also after being shared
	Panicking bool
	PanicVal  *Val
	Trace   []string
	Done    bool
	ExitKind string // "return" | "panic" | "cut"
	Iters   map[int]*RangeIter
	Closures map[string]*Closure
	CallCount map[string]int // site ordinal counters (per path, keyed by callee name)
	Assumed  map[string]bool  // trusted-call notes
	Unsupported string
	LockSnaps []lockSnap
	LoopSnaps []loopSnap
	CancelFns map[string]*Term
	GhostLets map[string]*Val
	LoopEntry map[int]loopEntrySnap // heap at the first arrival at loop N (before the havoc)
	FreshList []*Term
	LiveIters []*RangeIter
	Epoch   int // bumped when "everything" is havocked, so later-materialised families are fresh too
}

func (s *State) Top() *Frame { return s.Frames[len(s.Frames)-1] }

func (s *State) Clone() *State {
	n := &State{
		PC:        s.PC[:len(s.PC):len(s.PC)],
		Cells:     make(map[*Cell]*Val, len(s.Cells)),
		Heap:      make(map[string]*Term, len(s.Heap)),
		Held:      make(map[string]*Held, len(s.Held)),
		FreshRefs: make(map[string]bool, len(s.FreshRefs)),
		Panicking: s.Panicking,
		PanicVal:  s.PanicVal,
		Trace:     s.Trace[:len(s.Trace):len(s.Trace)],
		Iters:     s.Iters,
		Closures:  s.Closures,
		CallCount: make(map[string]int, len(s.CallCount)),
		Assumed:   s.Assumed,
		Epoch:     s.Epoch,
		LockSnaps: s.LockSnaps[:len(s.LockSnaps):len(s.LockSnaps)],
		LoopSnaps: s.LoopSnaps[:len(s.LoopSnaps):len(s.LoopSnaps)],
		CancelFns: s.CancelFns,
		GhostLets: s.GhostLets,
		LoopEntry: s.LoopEntry,
		FreshList: s.FreshList[:len(s.FreshList):len(s.FreshList)],
		FreshTypes: s.FreshTypes,
		Owned:     s.Owned,
		Oblig:     s.Oblig[:len(s.Oblig):len(s.Oblig)],
		Lent:      s.Lent,
		TokenSubject: s.TokenSubject,
		Escaped:   s.Escaped,
		LiveIters: s.LiveIters[:len(s.LiveIters):len(s.LiveIters)],
	}
	for k, v := range s.Cells {
		n.Cells[k] = v
	}
	for k, v := range s.Heap {
		n.Heap[k] = v
	}
	for k, v := range s.Held {
		n.Held[k] = v
	}
	for k, v := range s.FreshRefs {
		n.FreshRefs[k] = v
	}
	for k, v := range s.CallCount {
		n.CallCount[k] = v
	}
	for _, f := range s.Frames {
		nf := *f
		nf.Regs = make(map[ssa.Value]*Val, len(f.Regs))
		for k, v := range f.Regs {
			nf.Regs[k] = v
		}
		nf.Defers = f.Defers[:len(f.Defers):len(f.Defers)]
		nf.LoopSeen = make(map[*ssa.BasicBlock]bool, len(f.LoopSeen))
		for k, v := range f.LoopSeen {
			nf.LoopSeen[k] = v
		}
		n.Frames = append(n.Frames, &nf)
	}
	return n
}

func (s *State) Assume(t *Term) {
	if t.IsTrue() {
		return
	}
	s.PC = append(s.PC, t)
}

// ---- heap families ----

var heapSorts = map[string]Sort{}

// heapRefFam: heap families whose elements are references (pointers, maps, channels, slice bases, ...)
var heapRefFam = map[string]bool{}

func noteRefLeaf(key string, l leafInfo) {
	if l.T == nil {
		if strings.HasSuffix(l.Path, "base") {
			heapRefFam[key] = true
		}
		return
	}
	if isRefType(l.T) {
		if _, isIface := l.T.Underlying().(*types.Interface); !isIface {
			if _, isFn := l.T.Underlying().(*types.Signature); !isFn {
				heapRefFam[key] = true
			}
		}
	}
}

func (s *State) heapGet(name string, sort Sort) *Term {
	if t, ok := s.Heap[name]; ok {
		return t
	}
	if old, ok := heapSorts[name]; ok && old != sort {
		panic(fmt.Sprintf("heap family %s used with sorts %s and %s", name, old, sort))
	}
	heapSorts[name] = sort
	t := Const(fmt.Sprintf("%s@%d", name, s.Epoch), sort)
	s.Heap[name] = t
	return t
}

func heapKeyField(root *types.Named, path string) string {
	return "H$" + typeName(root) + "$" + path
}

func (s *State) heapNames() []string {
	ns := make([]string, 0, len(s.Heap))
	for k := range s.Heap {
		ns = append(ns, k)
	}
	sort.Strings(ns)
	return ns
}

// loadField reads the value of type t at object ref / path from the heap.
func (s *State) loadPath(root *types.Named, ref *Term, path string, t types.Type) *Val {
	var ls []leafInfo
	leaves(t, path, &ls)
	ts := make([]*Term, len(ls))
	for i, l := range ls {
		noteRefLeaf(heapKeyField(root, l.Path), l)
		h := s.heapGet(heapKeyField(root, l.Path), ArrSort(SInt, l.Sort))
		ts[i] = Select(h, ref)
	}
	i := 0
	return unflatten(t, ts, &i)
}

func (s *State) storePath(root *types.Named, ref *Term, path string, t types.Type, v *Val) {
	var ls []leafInfo
	leaves(t, path, &ls)
	var ts []*Term
	flatten(v, &ts)
	if len(ts) != len(ls) {
		panic(fmt.Sprintf("storePath %s.%s: %d leaves vs %d terms (%s)", typeName(root), path, len(ls), len(ts), v))
	}
	for i, l := range ls {
		key := heapKeyField(root, l.Path)
		h := s.heapGet(key, ArrSort(SInt, l.Sort))
		s.Heap[key] = Store(h, ref, coerce(ts[i], l.Sort))
	}
}

func coerce(t *Term, s Sort) *Term {
	if t.Sort == s {
		return t
	}
	panic(fmt.Sprintf("sort mismatch: %s : %s, expected %s", t, t.Sort, s))
}

// slice backing store: S$<elemtype>$<leafpath> : Array Int (Array Int leaf)
func sliceHeapKey(elem types.Type, path string) string {
	return "S$" + typeName(elem) + "$" + path
}

func (s *State) loadElem(elem types.Type, base, idx *Term) *Val {
	var ls []leafInfo
	leaves(elem, "", &ls)
	ts := make([]*Term, len(ls))
	for i, l := range ls {
		noteRefLeaf(sliceHeapKey(elem, l.Path), l)
		h := s.heapGet(sliceHeapKey(elem, l.Path), ArrSort(SInt, ArrSort(SInt, l.Sort)))
		ts[i] = Select(Select(h, base), idx)
	}
	i := 0
	return unflatten(elem, ts, &i)
}

func (s *State) storeElem(elem types.Type, base, idx *Term, v *Val) {
	var ls []leafInfo
	leaves(elem, "", &ls)
	var ts []*Term
	flatten(v, &ts)
	for i, l := range ls {
		key := sliceHeapKey(elem, l.Path)
		h := s.heapGet(key, ArrSort(SInt, ArrSort(SInt, l.Sort)))
		s.Heap[key] = Store(h, base, Store(Select(h, base), idx, ts[i]))
	}
}

// maps: M$<K>$<V>$has : Array Int (Array K Bool); M$..$val$<leaf> ; Mlen : Array Int Int
func mapKeys(mt *types.Map) (hasKey string, lenKey string, valPrefix string) {
	base := "M$" + typeName(mt.Key()) + "$" + typeName(mt.Elem())
	return base + "$has", base + "$len", base + "$val"
}

func (s *State) mapHas(mt *types.Map, m, k *Term) *Term {
	hk, _, _ := mapKeys(mt)
	h := s.heapGet(hk, ArrSort(SInt, ArrSort(leafSort(mt.Key()), SBool)))
	return Select(Select(h, m), k)
}

func (s *State) mapLen(mt *types.Map, m *Term) *Term {
	_, lk, _ := mapKeys(mt)
	h := s.heapGet(lk, ArrSort(SInt, SInt))
	return Select(h, m)
}

func (s *State) mapVal(mt *types.Map, m, k *Term) *Val {
	_, _, vp := mapKeys(mt)
	var ls []leafInfo
	leaves(mt.Elem(), "", &ls)
	ts := make([]*Term, len(ls))
	ks := leafSort(mt.Key())
	for i, l := range ls {
		noteRefLeaf(vp+"$"+l.Path, l)
		h := s.heapGet(vp+"$"+l.Path, ArrSort(SInt, ArrSort(ks, l.Sort)))
		ts[i] = Select(Select(h, m), k)
	}
	i := 0
	return unflatten(mt.Elem(), ts, &i)
}

// mapLookup: Go semantics (zero value if absent)
func (s *State) mapLookup(mt *types.Map, m, k *Term) (*Val, *Term) {
	has := And(Neq(m, IntLit(0)), s.mapHas(mt, m, k))
	v := s.mapVal(mt, m, k)
	z := zeroVal(mt.Elem())
	return iteVal(has, v, z), has
}

func iteVal(c *Term, a, b *Val) *Val {
	if a.Term != nil && a.Fields == nil {
		return &Val{T: a.T, Term: Ite(c, a.Term, b.Term)}
	}
	v := &Val{T: a.T, Fields: []*Val{}}
	for i := range a.Fields {
		v.Fields = append(v.Fields, iteVal(c, a.Fields[i], b.Fields[i]))
	}
	return v
}

func (s *State) mapStore(mt *types.Map, m, k *Term, v *Val) {
	hk, _, vp := mapKeys(mt)
	ks := leafSort(mt.Key())
	h := s.heapGet(hk, ArrSort(SInt, ArrSort(ks, SBool)))
	had := Select(Select(h, m), k)
	s.Heap[hk] = Store(h, m, Store(Select(h, m), k, True))
	_, lk, _ := mapKeys(mt)
	lh := s.heapGet(lk, ArrSort(SInt, SInt))
	s.Heap[lk] = Store(lh, m, Ite(had, Select(lh, m), Add(Select(lh, m), IntLit(1))))
	var ls []leafInfo
	leaves(mt.Elem(), "", &ls)
	var ts []*Term
	flatten(v, &ts)
	for i, l := range ls {
		key := vp + "$" + l.Path
		vh := s.heapGet(key, ArrSort(SInt, ArrSort(ks, l.Sort)))
		s.Heap[key] = Store(vh, m, Store(Select(vh, m), k, ts[i]))
	}
}

func (s *State) mapDelete(mt *types.Map, m, k *Term) {
	hk, _, _ := mapKeys(mt)
	ks := leafSort(mt.Key())
	h := s.heapGet(hk, ArrSort(SInt, ArrSort(ks, SBool)))
	had := And(Neq(m, IntLit(0)), Select(Select(h, m), k))
	s.Heap[hk] = Store(h, m, Store(Select(h, m), k, False))
	_, lk, _ := mapKeys(mt)
	lh := s.heapGet(lk, ArrSort(SInt, SInt))
	s.Heap[lk] = Store(lh, m, Ite(had, Sub(Select(lh, m), IntLit(1)), Select(lh, m)))
}

// ghost scalar/array families
func (s *State) ghostArr(name string, el Sort) *Term { return s.heapGet("G$"+name, ArrSort(SInt, el)) }
func (s *State) setGhostArr(name string, t *Term)    { s.Heap["G$"+name] = t }
func (s *State) ghostInt(name string) *Term {
	_, had := s.Heap["G$"+name]
	t := s.heapGet("G$"+name, SInt)
	if !had {
		s.Assume(Ge(t, IntLit(0))) // ghost counters count events
	}
	return t
}
func (s *State) setGhost(name string, t *Term)        { s.Heap["G$"+name] = t }

func (s *State) closeOnly(ch *Term) *Term { return Select(s.ghostArr("closeonly", SBool), ch) }
func (s *State) closed(ch *Term) *Term { return Select(s.ghostArr("closed", SBool), ch) }
func (s *State) setClosed(ch *Term) {
	s.setGhostArr("closed", Store(s.ghostArr("closed", SBool), ch, True))
}

var allocCounter int

// newRef allocates a fresh non-nil reference distinct from every reference allocated so far.
func (s *State) newRef(kind string) *Term {
	r := Fresh("ref$"+kind, SInt)
	al := s.ghostArr("alloc", SBool)
	s.Assume(Gt(r, IntLit(0)))
	s.Assume(Not(Select(al, r)))
	s.setGhostArr("alloc", Store(al, r, True))
	s.FreshRefs[r.Op] = true
	s.FreshList = append(s.FreshList, r)
	// a fresh reference is stored nowhere in the current heap
	for _, fam := range s.heapNames() {
		if !heapRefFam[fam] {
			continue
		}
		h := s.Heap[fam]
		switch {
		case h.Sort == ArrSort(SInt, SInt):
			x := BoundVar("x", SInt)
			s.Assume(Forall([]*Term{x}, Neq(Select(h, x), r)))
		case strings.HasPrefix(string(h.Sort), "(Array Int (Array ") && strings.HasSuffix(string(h.Sort), " Int))"):
			_, inner := arrParts(h.Sort)
			ks, _ := arrParts(inner)
			x := BoundVar("x", SInt)
			k := BoundVar("k", ks)
			s.Assume(Forall([]*Term{x, k}, Neq(Select(Select(h, x), k), r)))
		}
	}
	return r
}

// assumeAllocated: a reference obtained from the environment is nil or already allocated.
func (s *State) assumeAllocated(r *Term) {
	if r.Kind == kLit {
		return
	}
	al := s.ghostArr("alloc", SBool)
	s.Assume(Or(Eq(r, IntLit(0)), And(Gt(r, IntLit(0)), Select(al, r))))
}

func isRefType(t types.Type) bool {
	switch t.Underlying().(type) {
	case *types.Pointer, *types.Chan, *types.Map, *types.Signature, *types.Interface:
		return true
	}
	return false
}

// assumeValAllocated marks every reference leaf of v as nil-or-allocated.
// objInvHook assumes the object invariants of a shared object whose reference was just read (set per Exec).
var objInvHook func(s *State, v *Val)

func (s *State) assumeValAllocated(v *Val) {
	if v == nil {
		return
	}
	if v.Term != nil && v.Fields == nil {
		if v.T != nil && isRefType(v.T) && v.Term.Sort == SInt {
			s.assumeAllocated(v.Term)
			if objInvHook != nil {
				objInvHook(s, v)
			}
		} else if v.T != nil && v.Term.Sort == SInt && v.Term.Kind != kLit {
			if b, ok := v.T.Underlying().(*types.Basic); ok && b.Info()&types.IsInteger != 0 {
				lo, hi := intRange(v.T)
				s.Assume(And(Ge(v.Term, BigLit(lo)), Le(v.Term, BigLit(hi))))
			}
		}
		return
	}
	if v.T != nil && shapeOf(v.T) == shSlice {
		s.assumeAllocated(v.Fields[0].Term)
		s.Assume(And(Ge(v.Fields[1].Term, IntLit(0)), Lt(v.Fields[1].Term, BigLit(maxInt64))))
		s.Assume(Implies(Eq(v.Fields[0].Term, IntLit(0)), Eq(v.Fields[1].Term, IntLit(0))))
		return
	}
	for _, f := range v.Fields {
		s.assumeValAllocated(f)
	}
}

type escapedRef struct {
	Ref  *Term
	Root *types.Named
}

type loopEntrySnap struct {
	Heap  map[string]*Term
	Epoch int
}
