package main

// SMT term layer: sorted terms as a DAG, light simplification at construction,
// SMT-LIB2 printing with declarations collected from the term.

import (
	"fmt"
	"sort"
	"strconv"
	"strings"
)

type Sort string

const (
	SInt  Sort = "Int"
	SBool Sort = "Bool"
	SStr  Sort = "Str" // uninterpreted sort
	SReal Sort = "Real"
	SF64  Sort = "Float64"
	SBV64 Sort = "(_ BitVec 64)"
)

func ArrSort(idx, el Sort) Sort { return Sort("(Array " + string(idx) + " " + string(el) + ")") }

// elemSort returns index and element sorts of an array sort.
func arrParts(s Sort) (Sort, Sort) {
	str := string(s)
	if !strings.HasPrefix(str, "(Array ") {
		panic("not an array sort: " + str)
	}
	body := str[len("(Array ") : len(str)-1]
	// split first sort
	depth := 0
	for i, c := range body {
		switch c {
		case '(':
			depth++
		case ')':
			depth--
		case ' ':
			if depth == 0 {
				return Sort(body[:i]), Sort(body[i+1:])
			}
		}
	}
	panic("bad array sort " + str)
}

type Term struct {
	Op    string
	Args  []*Term
	Sort  Sort
	Kind  int // kConst, kLit, kApp, kUF, kQuant, kBound
	Bound []*Term // for quantifiers: bound variables
	hasBV bool    // contains a bound variable (not hoistable)
	hasQ  bool    // contains a quantifier (not hash-consed: compare by text)
	str   string  // cached print
	id    int
}

const (
	kConst = iota // declared constant symbol
	kLit          // literal (int, bool)
	kApp          // builtin application
	kUF           // uninterpreted function application
	kQuant
	kBound
)

var termCounter int

// Terms are hash-consed (except quantifiers, whose bound list is attached after construction): structurally equal
// terms are the same pointer, so equality tests need no printing.
var internTab = map[string]*Term{}

func mk(kind int, op string, sort Sort, args ...*Term) *Term {
	var key string
	if kind != kQuant {
		var b strings.Builder
		b.Grow(16 + len(op) + 8*len(args))
		b.WriteByte(byte('0' + kind))
		b.WriteString(op)
		b.WriteByte(0)
		b.WriteString(string(sort))
		for _, a := range args {
			b.WriteByte(0)
			b.WriteString(strconv.Itoa(a.id))
		}
		key = b.String()
		if t, ok := internTab[key]; ok {
			return t
		}
	}
	termCounter++
	t := &Term{Op: op, Args: args, Sort: sort, Kind: kind, id: termCounter}
	for _, a := range args {
		if a.hasBV {
			t.hasBV = true
		}
		if a.hasQ {
			t.hasQ = true
		}
	}
	if kind == kBound {
		t.hasBV = true
	}
	if kind == kQuant {
		t.hasQ = true
	}
	if kind != kQuant {
		internTab[key] = t
	}
	return t
}

// ---- global signature registry (uninterpreted functions) ----

type ufSig struct {
	args []Sort
	res  Sort
}

var ufRegistry = map[string]ufSig{}

// define-fun-rec definitions (name -> full SMT text), printed when referenced.
var recDefs = map[string]string{}
var recDefBodies = map[string]*Term{}
var recDefParams = map[string][]*Term{}

func UF(name string, res Sort, args ...*Term) *Term {
	name = smtName(name)
	sig, ok := ufRegistry[name]
	if !ok {
		as := make([]Sort, len(args))
		for i, a := range args {
			as[i] = a.Sort
		}
		ufRegistry[name] = ufSig{as, res}
	} else {
		if sig.res != res || len(sig.args) != len(args) {
			panic(fmt.Sprintf("UF %s used with inconsistent signature: %v->%v vs %d args ->%v", name, sig.args, sig.res, len(args), res))
		}
		for i, a := range args {
			if a.Sort != sig.args[i] {
				panic(fmt.Sprintf("UF %s arg %d sort %s, expected %s", name, i, a.Sort, sig.args[i]))
			}
		}
	}
	if len(args) == 0 {
		return mk(kConst, name, res)
	}
	return mk(kUF, name, res, args...)
}

func smtName(s string) string {
	ok := true
	for _, c := range s {
		if !(c >= 'a' && c <= 'z' || c >= 'A' && c <= 'Z' || c >= '0' && c <= '9' || strings.ContainsRune("_$!.@%~-^&*+/<>=?", c)) {
			ok = false
		}
	}
	if ok && len(s) > 0 && !(s[0] >= '0' && s[0] <= '9') {
		return s
	}
	return "|" + strings.ReplaceAll(strings.ReplaceAll(s, "|", "!"), "\\", "/") + "|"
}

var freshCounter = map[string]int{}

func Fresh(prefix string, s Sort) *Term {
	freshCounter[prefix]++
	name := smtName(fmt.Sprintf("%s!%d", prefix, freshCounter[prefix]))
	return mk(kConst, name, s)
}

func Const(name string, s Sort) *Term { return mk(kConst, smtName(name), s) }

func BoundVar(name string, s Sort) *Term {
	freshCounter["bv"]++
	return mk(kBound, smtName(fmt.Sprintf("%s?%d", name, freshCounter["bv"])), s)
}

var (
	True  = mk(kLit, "true", SBool)
	False = mk(kLit, "false", SBool)
)

func IntLit(n int64) *Term {
	if n < 0 {
		return mk(kLit, "(- "+strconv.FormatUint(uint64(-n), 10)+")", SInt)
	}
	return mk(kLit, strconv.FormatInt(n, 10), SInt)
}

func BigLit(s string) *Term { // decimal, possibly negative
	if strings.HasPrefix(s, "-") {
		return mk(kLit, "(- "+s[1:]+")", SInt)
	}
	return mk(kLit, s, SInt)
}

func BoolLit(b bool) *Term {
	if b {
		return True
	}
	return False
}

func (t *Term) IsTrue() bool  { return t.Kind == kLit && t.Op == "true" }
func (t *Term) IsFalse() bool { return t.Kind == kLit && t.Op == "false" }
func (t *Term) IntVal() (int64, bool) {
	if t.Kind != kLit || t.Sort != SInt {
		return 0, false
	}
	s := t.Op
	neg := false
	if strings.HasPrefix(s, "(- ") {
		neg = true
		s = s[3 : len(s)-1]
	}
	v, err := strconv.ParseInt(s, 10, 64)
	if err != nil {
		return 0, false
	}
	if neg {
		v = -v
	}
	return v, true
}

func same(a, b *Term) bool {
	if a == b {
		return true
	}
	if a.Kind == kQuant || b.Kind == kQuant || a.hasQ || b.hasQ {
		return a.String() == b.String()
	}
	return false // hash-consed: structurally equal quantifier-free terms are the same pointer
}

// known-distinct: two different literals.
func distinctLits(a, b *Term) bool {
	return a.Kind == kLit && b.Kind == kLit && a.Op != b.Op
}

func Not(a *Term) *Term {
	if a.IsTrue() {
		return False
	}
	if a.IsFalse() {
		return True
	}
	if a.Kind == kApp && a.Op == "not" {
		return a.Args[0]
	}
	return mk(kApp, "not", SBool, a)
}

func And(as ...*Term) *Term {
	var out []*Term
	for _, a := range as {
		if a.IsTrue() {
			continue
		}
		if a.IsFalse() {
			return False
		}
		if a.Kind == kApp && a.Op == "and" {
			out = append(out, a.Args...)
		} else {
			out = append(out, a)
		}
	}
	if len(out) == 0 {
		return True
	}
	if len(out) == 1 {
		return out[0]
	}
	return mk(kApp, "and", SBool, out...)
}

func Or(as ...*Term) *Term {
	var out []*Term
	for _, a := range as {
		if a.IsFalse() {
			continue
		}
		if a.IsTrue() {
			return True
		}
		if a.Kind == kApp && a.Op == "or" {
			out = append(out, a.Args...)
		} else {
			out = append(out, a)
		}
	}
	if len(out) == 0 {
		return False
	}
	if len(out) == 1 {
		return out[0]
	}
	return mk(kApp, "or", SBool, out...)
}

func Implies(a, b *Term) *Term {
	if a.IsTrue() {
		return b
	}
	if a.IsFalse() || b.IsTrue() {
		return True
	}
	if b.IsFalse() {
		return Not(a)
	}
	return mk(kApp, "=>", SBool, a, b)
}

func Iff(a, b *Term) *Term { return Eq(a, b) }

func Eq(a, b *Term) *Term {
	if a.Sort != b.Sort {
		panic(fmt.Sprintf("Eq sort mismatch: %s : %s  vs  %s : %s", a, a.Sort, b, b.Sort))
	}
	if same(a, b) {
		return True
	}
	if distinctLits(a, b) {
		return False
	}
	if a.Sort == SBool {
		if a.IsTrue() {
			return b
		}
		if b.IsTrue() {
			return a
		}
		if a.IsFalse() {
			return Not(b)
		}
		if b.IsFalse() {
			return Not(a)
		}
	}
	if a.Sort == SF64 {
		return mk(kApp, "fp.eq", SBool, a, b)
	}
	return mk(kApp, "=", SBool, a, b)
}

func Neq(a, b *Term) *Term { return Not(Eq(a, b)) }

func Ite(c, a, b *Term) *Term {
	if c.IsTrue() {
		return a
	}
	if c.IsFalse() {
		return b
	}
	if same(a, b) {
		return a
	}
	if a.Sort != b.Sort {
		panic(fmt.Sprintf("Ite sort mismatch %s vs %s", a.Sort, b.Sort))
	}
	if a.Sort == SBool {
		if a.IsTrue() && b.IsFalse() {
			return c
		}
		if a.IsFalse() && b.IsTrue() {
			return Not(c)
		}
	}
	return mk(kApp, "ite", a.Sort, c, a, b)
}

func arith(op string, a, b *Term) *Term {
	if a.Sort != b.Sort {
		panic(fmt.Sprintf("arith %s sort mismatch %s vs %s", op, a.Sort, b.Sort))
	}
	if av, ok := a.IntVal(); ok {
		if bv, ok := b.IntVal(); ok {
			switch op {
			case "+":
				if r := av + bv; (r > av) == (bv > 0) {
					return IntLit(r)
				}
			case "-":
				if r := av - bv; (r < av) == (bv > 0) {
					return IntLit(r)
				}
			case "*":
				if av == 0 || bv == 0 {
					return IntLit(0)
				}
				if r := av * bv; r/bv == av && !(av == -1 && bv == -1<<63) && !(bv == -1 && av == -1<<63) {
					return IntLit(r)
				}
			}
		}
	}
	if op == "+" || op == "-" {
		if bv, ok := b.IntVal(); ok && bv == 0 {
			return a
		}
		// (x + c1) +/- c2  ->  x + (c1 +/- c2)
		if bv, ok := b.IntVal(); ok && a.Kind == kApp && a.Op == "+" && len(a.Args) == 2 && a.Sort == SInt {
			if c1, ok := a.Args[1].IntVal(); ok && c1 > -1<<40 && c1 < 1<<40 && bv > -1<<40 && bv < 1<<40 {
				if op == "+" {
					return arith("+", a.Args[0], IntLit(c1+bv))
				}
				return arith("+", a.Args[0], IntLit(c1-bv))
			}
		}
	}
	if op == "+" {
		if av, ok := a.IntVal(); ok && av == 0 {
			return b
		}
	}
	return mk(kApp, op, a.Sort, a, b)
}

func Add(a, b *Term) *Term { return arith("+", a, b) }
func Sub(a, b *Term) *Term { return arith("-", a, b) }
func Mul(a, b *Term) *Term { return arith("*", a, b) }
func Div(a, b *Term) *Term { return UF("godiv", SInt, a, b) } // Go truncated division, axiomatised on use
func Mod(a, b *Term) *Term { return UF("gomod", SInt, a, b) }

func cmp(op string, a, b *Term) *Term {
	if a.Sort != b.Sort {
		panic(fmt.Sprintf("cmp %s sort mismatch %s:%s vs %s:%s", op, a, a.Sort, b, b.Sort))
	}
	if av, ok := a.IntVal(); ok {
		if bv, ok := b.IntVal(); ok {
			switch op {
			case "<":
				return BoolLit(av < bv)
			case "<=":
				return BoolLit(av <= bv)
			case ">":
				return BoolLit(av > bv)
			case ">=":
				return BoolLit(av >= bv)
			}
		}
	}
	if same(a, b) {
		return BoolLit(op == "<=" || op == ">=")
	}
	return mk(kApp, op, SBool, a, b)
}

func Lt(a, b *Term) *Term { return cmp("<", a, b) }
func Le(a, b *Term) *Term { return cmp("<=", a, b) }
func Gt(a, b *Term) *Term { return cmp(">", a, b) }
func Ge(a, b *Term) *Term { return cmp(">=", a, b) }

func Select(arr, idx *Term) *Term {
	is, es := arrParts(arr.Sort)
	if idx.Sort != is {
		panic(fmt.Sprintf("select index sort %s, expected %s (arr %s)", idx.Sort, is, arr))
	}
	// read-over-write simplification
	a := arr
	for a.Kind == kApp && a.Op == "store" {
		if same(a.Args[1], idx) {
			return a.Args[2]
		}
		if distinctLits(a.Args[1], idx) {
			a = a.Args[0]
			continue
		}
		break
	}
	if a.Kind == kApp && a.Op == "constarr" {
		return a.Args[0]
	}
	return mk(kApp, "select", es, a, idx)
}

func Store(arr, idx, v *Term) *Term {
	is, es := arrParts(arr.Sort)
	if idx.Sort != is || v.Sort != es {
		panic(fmt.Sprintf("store sorts: arr %s idx %s val %s", arr.Sort, idx.Sort, v.Sort))
	}
	if arr.Kind == kApp && arr.Op == "store" && same(arr.Args[1], idx) {
		arr = arr.Args[0]
	}
	return mk(kApp, "store", arr.Sort, arr, idx, v)
}

func ConstArr(s Sort, v *Term) *Term {
	t := mk(kApp, "constarr", s, v)
	return t
}

func Forall(vars []*Term, body *Term) *Term {
	if body.IsTrue() {
		return True
	}
	if len(vars) == 0 {
		return body
	}
	t := mk(kQuant, "forall", SBool, body)
	t.Bound = vars
	t.hasBV = freeBound(t)
	return t
}

func Exists(vars []*Term, body *Term) *Term {
	if body.IsFalse() {
		return False
	}
	if len(vars) == 0 {
		return body
	}
	t := mk(kQuant, "exists", SBool, body)
	t.Bound = vars
	t.hasBV = freeBound(t)
	return t
}

// freeBound: does quantifier t still contain bound variables that are not its own?
func freeBound(q *Term) bool {
	own := map[string]bool{}
	for _, v := range q.Bound {
		own[v.Op] = true
	}
	found := false
	var walk func(t *Term, bound map[string]bool)
	seen := map[*Term]bool{}
	walk = func(t *Term, bound map[string]bool) {
		if found || !t.hasBV {
			return
		}
		if t.Kind == kBound {
			if !bound[t.Op] {
				found = true
			}
			return
		}
		if t.Kind == kQuant {
			nb := map[string]bool{}
			for k := range bound {
				nb[k] = true
			}
			for _, v := range t.Bound {
				nb[v.Op] = true
			}
			walk(t.Args[0], nb)
			return
		}
		if seen[t] {
			return
		}
		seen[t] = true
		for _, a := range t.Args {
			walk(a, bound)
		}
	}
	walk(q.Args[0], own)
	return found
}

// Key: a short identity of the term (its hash-consing id; the printed form for terms with quantifiers).
func (t *Term) Key() string {
	if t.hasQ {
		return t.String()
	}
	return "#" + strconv.Itoa(t.id)
}

func (t *Term) String() string {
	if t.str != "" {
		return t.str
	}
	var s string
	switch t.Kind {
	case kConst, kLit, kBound:
		s = t.Op
	case kQuant:
		var b strings.Builder
		b.WriteString("(" + t.Op + " (")
		for i, v := range t.Bound {
			if i > 0 {
				b.WriteString(" ")
			}
			b.WriteString("(" + v.Op + " " + string(v.Sort) + ")")
		}
		b.WriteString(") " + t.Args[0].String() + ")")
		s = b.String()
	default:
		if t.Op == "constarr" {
			s = "((as const " + string(t.Sort) + ") " + t.Args[0].String() + ")"
			break
		}
		var b strings.Builder
		b.WriteString("(" + t.Op)
		for _, a := range t.Args {
			b.WriteString(" ")
			b.WriteString(a.String())
		}
		b.WriteString(")")
		s = b.String()
	}
	if len(s) < 4096 {
		t.str = s
	}
	return s
}

// ---- substitution ----

func Subst(t *Term, m map[string]*Term) *Term {
	cache := map[*Term]*Term{}
	var rec func(t *Term) *Term
	rec = func(t *Term) *Term {
		if r, ok := cache[t]; ok {
			return r
		}
		var r *Term
		switch t.Kind {
		case kConst, kBound:
			if x, ok := m[t.Op]; ok {
				r = x
			} else {
				r = t
			}
		case kLit:
			r = t
		case kQuant:
			body := rec(t.Args[0])
			if body == t.Args[0] {
				r = t
			} else if t.Op == "forall" {
				r = Forall(t.Bound, body)
			} else {
				r = Exists(t.Bound, body)
			}
		default:
			changed := false
			na := make([]*Term, len(t.Args))
			for i, a := range t.Args {
				na[i] = rec(a)
				if na[i] != a {
					changed = true
				}
			}
			if !changed {
				r = t
			} else {
				r = rebuild(t, na)
			}
		}
		cache[t] = r
		return r
	}
	return rec(t)
}

func rebuild(t *Term, na []*Term) *Term {
	if t.Kind == kUF {
		return mk(kUF, t.Op, t.Sort, na...)
	}
	switch t.Op {
	case "not":
		return Not(na[0])
	case "and":
		return And(na...)
	case "or":
		return Or(na...)
	case "=>":
		return Implies(na[0], na[1])
	case "=", "fp.eq":
		return Eq(na[0], na[1])
	case "ite":
		return Ite(na[0], na[1], na[2])
	case "select":
		return Select(na[0], na[1])
	case "store":
		return Store(na[0], na[1], na[2])
	case "+", "-", "*":
		if len(na) == 2 && na[0].Sort == SInt {
			return arith(t.Op, na[0], na[1])
		}
	case "<", "<=", ">", ">=":
		if na[0].Sort == SInt {
			return cmp(t.Op, na[0], na[1])
		}
	}
	return mk(t.Kind, t.Op, t.Sort, na...)
}

// ---- printing a query ----

type Query struct {
	AbstractRec bool // print recursive spec functions as uninterpreted (weaker hypotheses: proofs stay valid, models are candidates)
	Name    string
	Assumes []*Term
	Goal    *Term // to prove: assumes => goal.  The query asserts not goal.
	Logic   string
}

// collectDecls walks terms and gathers constants, UFs and sorts.
func collectDecls(ts []*Term) (consts map[string]Sort, ufs map[string]ufSig, sorts map[string]bool, recs map[string]bool) {
	consts = map[string]Sort{}
	ufs = map[string]ufSig{}
	sorts = map[string]bool{}
	recs = map[string]bool{}
	seen := map[*Term]bool{}
	noteSort := func(s Sort) {
		str := string(s)
		for _, w := range strings.FieldsFunc(str, func(r rune) bool { return r == '(' || r == ')' || r == ' ' }) {
			switch w {
			case "Array", "Int", "Bool", "Real", "_", "BitVec", "64", "Float64", "RoundingMode":
			default:
				sorts[w] = true
			}
		}
	}
	var walk func(t *Term)
	walk = func(t *Term) {
		if seen[t] {
			return
		}
		seen[t] = true
		noteSort(t.Sort)
		switch t.Kind {
		case kConst:
			if _, isrec := recDefs[t.Op]; isrec {
				recs[t.Op] = true
			} else {
				consts[t.Op] = t.Sort
			}
		case kUF:
			if _, isrec := recDefs[t.Op]; isrec {
				recs[t.Op] = true
			} else {
				ufs[t.Op] = ufRegistry[t.Op]
				for _, s := range ufRegistry[t.Op].args {
					noteSort(s)
				}
			}
		case kQuant:
			for _, v := range t.Bound {
				noteSort(v.Sort)
			}
		}
		for _, a := range t.Args {
			walk(a)
		}
	}
	for _, t := range ts {
		walk(t)
	}
	// bodies of referenced recursive definitions contribute declarations too (minus their parameters)
	done := map[string]bool{}
	for changed := true; changed; {
		changed = false
		for r := range recs {
			if done[r] {
				continue
			}
			done[r] = true
			changed = true
			if b := recDefBodies[r]; b != nil {
				before := map[string]bool{}
				for c := range consts {
					before[c] = true
				}
				walk(b)
				for _, p := range recDefParams[r] {
					if !before[p.Op] {
						delete(consts, p.Op)
					}
				}
			}
		}
	}
	return
}

// printer with hoisting of shared closed subterms into define-funs.
type printer struct {
	refs  map[*Term]int
	names map[*Term]string
	defs  []string
	n     int
}

func (p *printer) count(t *Term) {
	p.refs[t]++
	if p.refs[t] > 1 {
		return
	}
	for _, a := range t.Args {
		p.count(a)
	}
}

func (p *printer) pr(t *Term) string {
	if n, ok := p.names[t]; ok {
		return n
	}
	var s string
	switch t.Kind {
	case kConst, kLit, kBound:
		return t.Op
	case kQuant:
		var b strings.Builder
		b.WriteString("(" + t.Op + " (")
		for i, v := range t.Bound {
			if i > 0 {
				b.WriteString(" ")
			}
			b.WriteString("(" + v.Op + " " + string(v.Sort) + ")")
		}
		b.WriteString(") " + p.pr(t.Args[0]) + ")")
		s = b.String()
	default:
		if t.Op == "constarr" {
			s = "((as const " + string(t.Sort) + ") " + p.pr(t.Args[0]) + ")"
		} else {
			var b strings.Builder
			b.WriteString("(" + t.Op)
			for _, a := range t.Args {
				b.WriteString(" ")
				b.WriteString(p.pr(a))
			}
			b.WriteString(")")
			s = b.String()
		}
	}
	if p.refs[t] > 1 && !t.hasBV && len(s) > 40 {
		p.n++
		name := fmt.Sprintf("$d%d", p.n)
		p.defs = append(p.defs, fmt.Sprintf("(define-fun %s () %s %s)", name, t.Sort, s))
		p.names[t] = name
		return name
	}
	return s
}

// SMTText renders the query; extraAsserts are appended (e.g. finite-scope closure).
func (q *Query) SMTText(produceModels bool) string {
	all := append([]*Term{}, q.Assumes...)
	neg := Not(q.Goal)
	all = append(all, neg)
	consts, ufs, sorts, recs := collectDecls(all)
	// rec defs may reference other ufs/consts; their text is self-contained except declared deps
	var b strings.Builder
	if produceModels {
		b.WriteString("(set-option :produce-models true)\n")
	}
	b.WriteString("(set-logic ALL)\n")
	b.WriteString("; obligation " + q.Name + "\n")
	sn := keys(sorts)
	for _, s := range sn {
		b.WriteString("(declare-sort " + s + " 0)\n")
	}
	var strs []string
	for _, c := range sortedKeys(consts) {
		b.WriteString(fmt.Sprintf("(declare-const %s %s)\n", c, consts[c]))
		if consts[c] == SStr && strings.HasPrefix(c, "str!") {
			strs = append(strs, c)
		}
	}
	if len(strs) > 1 {
		b.WriteString("(assert (distinct " + strings.Join(strs, " ") + "))\n")
	}
	un := make([]string, 0, len(ufs))
	for k := range ufs {
		un = append(un, k)
	}
	sort.Strings(un)
	for _, u := range un {
		sig := ufs[u]
		as := make([]string, len(sig.args))
		for i, s := range sig.args {
			as[i] = string(s)
		}
		b.WriteString(fmt.Sprintf("(declare-fun %s (%s) %s)\n", u, strings.Join(as, " "), sig.res))
	}
	for _, r := range keys(recs) {
		if q.AbstractRec {
			var as []string
			for _, p := range recDefParams[r] {
				as = append(as, string(p.Sort))
			}
			b.WriteString(fmt.Sprintf("(declare-fun %s (%s) %s)\n", r, strings.Join(as, " "), recDefBodies[r].Sort))
			continue
		}
		b.WriteString(recDefs[r] + "\n")
	}
	p := &printer{refs: map[*Term]int{}, names: map[*Term]string{}}
	for _, t := range all {
		p.count(t)
	}
	var asserts []string
	for i, t := range all {
		s := p.pr(t)
		if i == len(all)-1 {
			asserts = append(asserts, "; negated goal\n(assert "+s+")")
		} else {
			asserts = append(asserts, "(assert "+s+")")
		}
	}
	for _, d := range p.defs {
		b.WriteString(d + "\n")
	}
	for _, a := range asserts {
		b.WriteString(a + "\n")
	}
	b.WriteString("(check-sat)\n")
	if produceModels {
		b.WriteString("(get-model)\n")
	}
	return b.String()
}

func keys(m map[string]bool) []string {
	out := make([]string, 0, len(m))
	for k := range m {
		out = append(out, k)
	}
	sort.Strings(out)
	return out
}

func sortedKeys(m map[string]Sort) []string {
	out := make([]string, 0, len(m))
	for k := range m {
		out = append(out, k)
	}
	sort.Strings(out)
	return out
}
