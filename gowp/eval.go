package main

// Evaluation of contract expressions over a symbolic state.

import (
	"fmt"
	"go/constant"
	"go/types"
	"sort"
	"strconv"
	"strings"

	"golang.org/x/tools/go/ssa"
)

type Env struct {
	V       *Verifier
	X       *Exec
	St      *State
	Heap    map[string]*Term // explicit heap (old-state evaluation); St==nil then
	OldHeap map[string]*Term
	Vars    map[string]*Val
	Fn      *ssa.Function
	Frame   *Frame
	Pkg     *types.Package
	Epoch   int
	OldEpoch int
	LocalSt *State // state supplying local variables when St is nil (old-state evaluation)
	depth   int
}

// hs returns a State view for heap reads.
func (e *Env) hs() *State {
	if e.St != nil {
		return e.St
	}
	h := e.Heap
	if h == nil {
		h = map[string]*Term{}
		e.Heap = h
	}
	return &State{Heap: h, Epoch: e.Epoch, FreshRefs: map[string]bool{}}
}

func (x *Exec) envAt(st *State, fr *Frame) *Env {
	env := &Env{V: x.V, X: x, St: st, Vars: map[string]*Val{}, Fn: fr.Fn, Frame: fr, Pkg: fr.Fn.Package().Pkg, Epoch: st.Epoch}
	if x.Entry != nil {
		env.OldHeap = x.Entry.OldHeap
	}
	return env
}

func (v *Verifier) evalBool(env *Env, e *Expr) *Term {
	r := v.eval(env, e)
	if r.Term == nil || r.Term.Sort != SBool {
		unsupportedf("contract expression %s is not boolean", e)
	}
	return r.Term
}

func boolVal(t *Term) *Val { return &Val{T: types.Typ[types.Bool], Term: t} }
func intVal(t *Term) *Val  { return &Val{T: types.Typ[types.Int], Term: t} }

func (v *Verifier) resolveType(env *Env, text string) types.Type {
	text = strings.TrimSpace(text)
	if strings.HasPrefix(text, "*") {
		return types.NewPointer(v.resolveType(env, text[1:]))
	}
	if strings.HasPrefix(text, "[]") {
		return types.NewSlice(v.resolveType(env, text[2:]))
	}
	switch text {
	case "ref":
		return types.Typ[types.UnsafePointer]
	case "any":
		return types.NewInterfaceType(nil, nil)
	}
	if o := types.Universe.Lookup(text); o != nil {
		if tn, ok := o.(*types.TypeName); ok {
			return tn.Type()
		}
	}
	pkg := env.Pkg
	name := text
	if i := strings.Index(text, "."); i >= 0 {
		pn := text[:i]
		name = text[i+1:]
		found := false
		for _, im := range env.Pkg.Imports() {
			if im.Name() == pn {
				pkg = im
				found = true
			}
		}
		if !found {
			if p, ok := v.P.TPkgs[pn]; ok {
				pkg = p
				found = true
			}
		}
		if !found && pn == env.Pkg.Name() {
			found = true
		}
		if !found {
			for _, sp := range v.P.Prog.AllPackages() {
				if sp.Pkg.Name() == pn {
					pkg = sp.Pkg
					found = true
					break
				}
			}
		}
		if !found {
			unsupportedf("unknown package %s in type %s", pn, text)
		}
	}
	if o := pkg.Scope().Lookup(name); o != nil {
		if tn, ok := o.(*types.TypeName); ok {
			return tn.Type()
		}
	}
	unsupportedf("unknown type %q in contract", text)
	return nil
}

func (v *Verifier) lookupSpec(env *Env, name string) *SpecFunc {
	if sf, ok := v.C.Specs[env.Pkg.Name()+"."+name]; ok {
		return sf
	}
	// unique across packages
	var found *SpecFunc
	for k, sf := range v.C.Specs {
		if strings.HasSuffix(k, "."+name) {
			if found != nil {
				return nil
			}
			found = sf
		}
	}
	return found
}

func (v *Verifier) eval(env *Env, e *Expr) *Val {
	env.depth++
	defer func() { env.depth-- }()
	if env.depth > 200 {
		unsupportedf("contract expression too deep (recursive spec without decreases?)")
	}
	switch e.Kind {
	case "int":
		return intVal(BigLit(e.Lit))
	case "bool":
		return boolVal(BoolLit(e.Lit == "true"))
	case "str":
		return &Val{T: types.Typ[types.String], Term: StrLit(e.Lit)}
	case "nil":
		return &Val{T: types.Typ[types.UntypedNil], Term: IntLit(0)}
	case "ident":
		return v.evalIdent(env, e.Op)
	case "unop":
		a := v.eval(env, e.Args[0])
		if e.Op == "!" {
			return boolVal(Not(a.Term))
		}
		return &Val{T: a.T, Term: Sub(IntLit(0), a.Term)}
	case "cond":
		c := v.evalBool(env, e.Args[0])
		return iteVal(c, v.eval(env, e.Args[1]), v.eval(env, e.Args[2]))
	case "binop":
		return v.evalBinop(env, e)
	case "sel":
		// package-qualified?
		if b := e.Args[0]; b.Kind == "ident" {
			if _, isVar := env.Vars[b.Op]; !isVar {
				if pk := v.importedPkg(env, b.Op); pk != nil && !v.isLocalName(env, b.Op) {
					return v.pkgMember(env, pk, e.Op)
				}
			}
		}
		base := v.eval(env, e.Args[0])
		return v.selectField(env, base, e.Op)
	case "index":
		base := v.eval(env, e.Args[0])
		idx := v.eval(env, e.Args[1])
		switch t := base.T.Underlying().(type) {
		case *types.Map:
			r, _ := env.hs().mapLookup(t, base.Term, idx.Term)
			return r
		case *types.Slice:
			return env.hs().loadElem(t.Elem(), base.Fields[0].Term, idx.Term)
		}
		unsupportedf("index on %s", base.T)
	case "quant":
		env2 := *env
		env2.Vars = map[string]*Val{}
		for k, x := range env.Vars {
			env2.Vars[k] = x
		}
		var bvs []*Term
		var guards []*Term
		for _, d := range e.Vars {
			t := v.resolveType(env, d.Type)
			if shapeOf(t) != shLeaf {
				unsupportedf("quantified variable %s of compound type %s", d.Name, d.Type)
			}
			bv := BoundVar(d.Name, leafSort(t))
			bvs = append(bvs, bv)
			env2.Vars[d.Name] = &Val{T: t, Term: bv}
		}
		body := v.evalBool(&env2, e.Args[0])
		_ = guards
		if e.Op == "forall" {
			return boolVal(Forall(bvs, body))
		}
		return boolVal(Exists(bvs, body))
	case "call":
		return v.evalCall(env, e)
	}
	unsupportedf("cannot evaluate %s", e)
	return nil
}

func (v *Verifier) importedPkg(env *Env, name string) *types.Package {
	for _, im := range env.Pkg.Imports() {
		if im.Name() == name {
			return im
		}
	}
	if p, ok := v.P.TPkgs[name]; ok && p != env.Pkg {
		return p
	}
	return nil
}

func (v *Verifier) isLocalName(env *Env, name string) bool {
	if env.Fn != nil {
		for _, p := range env.Fn.Params {
			if p.Name() == name {
				return true
			}
		}
		for _, p := range env.Fn.FreeVars {
			if p.Name() == name {
				return true
			}
		}
	}
	return false
}

func (v *Verifier) pkgMember(env *Env, pk *types.Package, name string) *Val {
	o := pk.Scope().Lookup(name)
	if o == nil {
		unsupportedf("package %s has no member %s", pk.Name(), name)
	}
	return v.objVal(env, o)
}

func (v *Verifier) objVal(env *Env, o types.Object) *Val {
	switch ob := o.(type) {
	case *types.Const:
		switch ob.Val().Kind() {
		case constant.Int:
			return &Val{T: ob.Type(), Term: BigLit(ob.Val().ExactString())}
		case constant.Bool:
			return &Val{T: ob.Type(), Term: BoolLit(constant.BoolVal(ob.Val()))}
		case constant.String:
			return &Val{T: ob.Type(), Term: StrLit(constant.StringVal(ob.Val()))}
		}
	case *types.Var:
		sp := v.P.Prog.Package(ob.Pkg())
		if sp != nil {
			if g, ok := sp.Members[ob.Name()].(*ssa.Global); ok {
				hs := env.hs()
				et := pointee(g.Type())
				var ls []leafInfo
				leaves(et, "", &ls)
				ts := make([]*Term, len(ls))
				for k, l := range ls {
					ts[k] = hs.heapGet(globKey(g, l.Path), l.Sort)
				}
				k := 0
				return unflatten(et, ts, &k)
			}
		}
	case *types.Func:
		sp := v.P.Prog.Package(ob.Pkg())
		if sp != nil {
			if f := sp.Func(ob.Name()); f != nil {
				return &Val{T: f.Type(), Fn: f, Term: UF("fn$"+f.String(), SInt)}
			}
		}
	}
	unsupportedf("cannot use %s in a contract", o)
	return nil
}

func (v *Verifier) evalIdent(env *Env, name string) *Val {
	if x, ok := env.Vars[name]; ok {
		return x
	}
	if env.X != nil && env.X.ghostLetNames[name] {
		gs := env.St
		if gs == nil {
			gs = env.LocalSt
		}
		if gs != nil {
			if gv, ok := gs.GhostLets[name]; ok {
				return gv
			}
		}
		if t, ok := env.X.ghostLetTypes[name]; ok {
			return freshVal(t, "ghostlet$"+name)
		}
		return &Val{T: types.Typ[types.UnsafePointer], Term: Fresh("ghostlet$"+name, SInt)}
	}
	if env.Fn != nil && (env.X == nil || env.Fn != env.X.Fn) {
		// ghost let of a callee whose contract is being applied: an existentially bound value
		if fc, ok := v.C.Funcs[v.P.FuncKey(env.Fn)]; ok {
			for _, cl := range fc.Of("ghost") {
				if strings.HasPrefix(cl.Text, "let "+name+" ") || strings.HasPrefix(cl.Text, "let "+name+"=") {
					gv := &Val{T: types.NewInterfaceType(nil, nil), Term: Fresh("ghostlet$"+name, SInt)}
					env.Vars[name] = gv
					return gv
				}
			}
		}
	}
	if p, ok := env.Vars["&"+name]; ok {
		if p.Cell != nil && env.St != nil {
			if c, ok := env.St.Cells[p.Cell]; ok {
				return c
			}
		}
		if p.Cell != nil && env.X != nil && env.X.Entry != nil {
			if c, ok := env.X.Entry.OldCells[p.Cell]; ok {
				return c
			}
		}
	}
	// local cell by name
	lst := env.St
	if lst == nil {
		lst = env.LocalSt
	}
	if env.X != nil && env.Fn != nil && lst != nil && env.Fn == env.X.Fn {
		var best *Cell
		for a, c := range env.X.cellOf {
			if a.Comment == name {
				if _, live := lst.Cells[c]; live {
					// shadowing: the most recently declared live variable of that name
					if best == nil || c.ID > best.ID {
						best = c
					}
				}
			}
		}
		if best != nil {
			return lst.Cells[best]
		}
	}
	// parameters of the function under verification (entry values)
	if env.X != nil && env.X.Entry != nil && env.Fn == env.X.Fn {
		if p, ok := env.X.Entry.Params[name]; ok {
			return p
		}
	}
	// captured variables of the closure under verification
	if env.X != nil && env.X.Entry != nil && (env.Fn == env.X.Fn || env.Fn == nil) {
		if c, ok := env.X.Entry.FreeCells[name]; ok {
			if env.St != nil {
				if cv, live := env.St.Cells[c]; live {
					return cv
				}
			}
			if cv, ok := env.X.Entry.OldCells[c]; ok {
				return cv
			}
		}
		if fv, ok := env.X.Entry.FreeVals[name]; ok {
			return fv
		}
	}
	if env.Pkg != nil {
		if o := env.Pkg.Scope().Lookup(name); o != nil {
			return v.objVal(env, o)
		}
	}
	unsupportedf("unknown identifier %q in contract", name)
	return nil
}

func (v *Verifier) selectField(env *Env, base *Val, f string) *Val {
	hs := env.hs()
	if base.FP != nil {
		ft := fieldTypeAt2(base.FP.T, f)
		return hs.loadPath(base.FP.Root, base.FP.Base, strings.Join(append(append([]string{}, base.FP.Path...), f), "."), ft)
	}
	if base.Term != nil && base.Fields == nil {
		pt := pointee(base.T)
		if pt == nil {
			unsupportedf("selector .%s on non-pointer %s", f, base.T)
		}
		ns := namedStruct(pt)
		if ns == nil {
			unsupportedf("selector .%s on pointer to %s", f, pt)
		}
		ft := fieldTypeAt(ns, []string{f})
		return hs.loadPath(ns, base.Term, f, ft)
	}
	if base.Fields != nil {
		stt, ok := base.T.Underlying().(*types.Struct)
		if !ok {
			unsupportedf("selector .%s on %s", f, base.T)
		}
		for i := 0; i < stt.NumFields(); i++ {
			if stt.Field(i).Name() == f {
				r := base.Fields[i]
				if r.T == nil {
					nr := *r
					nr.T = stt.Field(i).Type()
					return &nr
				}
				return r
			}
		}
	}
	unsupportedf("cannot select .%s", f)
	return nil
}

func fieldTypeAt2(t types.Type, f string) types.Type {
	stt, ok := t.Underlying().(*types.Struct)
	if !ok {
		unsupportedf("%s is not a struct", t)
	}
	for i := 0; i < stt.NumFields(); i++ {
		if stt.Field(i).Name() == f {
			return stt.Field(i).Type()
		}
	}
	unsupportedf("no field %s in %s", f, t)
	return nil
}

func nilCompat(a, b *Val) (*Val, *Val) {
	// nil literal against a slice compares the base reference
	if a.T == types.Typ[types.UntypedNil] && b.Fields != nil && b.T != nil && shapeOf(b.T) == shSlice {
		return a, &Val{T: types.Typ[types.UnsafePointer], Term: b.Fields[0].Term}
	}
	if b.T == types.Typ[types.UntypedNil] && a.Fields != nil && a.T != nil && shapeOf(a.T) == shSlice {
		return &Val{T: types.Typ[types.UnsafePointer], Term: a.Fields[0].Term}, b
	}
	return a, b
}

func (v *Verifier) evalBinop(env *Env, e *Expr) *Val {
	switch e.Op {
	case "&&":
		return boolVal(And(v.evalBool(env, e.Args[0]), v.evalBool(env, e.Args[1])))
	case "||":
		return boolVal(Or(v.evalBool(env, e.Args[0]), v.evalBool(env, e.Args[1])))
	case "==>":
		return boolVal(Implies(v.evalBool(env, e.Args[0]), v.evalBool(env, e.Args[1])))
	case "<==>":
		return boolVal(Iff(v.evalBool(env, e.Args[0]), v.evalBool(env, e.Args[1])))
	}
	a := v.eval(env, e.Args[0])
	b := v.eval(env, e.Args[1])
	switch e.Op {
	case "==":
		a, b = nilCompat(a, b)
		return boolVal(valEq(a, b))
	case "!=":
		a, b = nilCompat(a, b)
		return boolVal(Not(valEq(a, b)))
	}
	if a.Term == nil || b.Term == nil {
		unsupportedf("operator %s on compound values", e.Op)
	}
	if a.Term.Sort == SReal || b.Term.Sort == SReal {
		at, bt := a.Term, b.Term
		if at.Sort == SInt {
			at = toReal(at)
		}
		if bt.Sort == SInt {
			bt = toReal(bt)
		}
		switch e.Op {
		case "+", "-", "*":
			return &Val{T: types.Typ[types.Float64], Term: mk(kApp, e.Op, SReal, at, bt)}
		case "<", "<=", ">", ">=":
			return boolVal(mk(kApp, e.Op, SBool, at, bt))
		}
	}
	switch e.Op {
	case "+":
		return &Val{T: a.T, Term: Add(a.Term, b.Term)}
	case "-":
		return &Val{T: a.T, Term: Sub(a.Term, b.Term)}
	case "*":
		return &Val{T: a.T, Term: Mul(a.Term, b.Term)}
	case "/":
		return &Val{T: a.T, Term: Div(a.Term, b.Term)}
	case "%":
		return &Val{T: a.T, Term: Mod(a.Term, b.Term)}
	case "<":
		return boolVal(Lt(a.Term, b.Term))
	case "<=":
		return boolVal(Le(a.Term, b.Term))
	case ">":
		return boolVal(Gt(a.Term, b.Term))
	case ">=":
		return boolVal(Ge(a.Term, b.Term))
	}
	unsupportedf("operator %s", e.Op)
	return nil
}

func (v *Verifier) evalCall(env *Env, e *Expr) *Val {
	callee := e.Args[0]
	args := e.Args[1:]
	if callee.Kind != "ident" {
		unsupportedf("call of %s in a contract", callee)
	}
	name := callee.Op
	hs := env.hs()
	arg := func(i int) *Val { return v.eval(env, args[i]) }
	switch name {
	case "param":
		// the value a parameter of the function under verification had at entry (a parameter that is assigned to is
		// a local variable afterwards, and its plain name denotes the current value)
		if len(args) != 1 || args[0].Kind != "ident" || env.X == nil || env.X.Entry == nil {
			unsupportedf("param(NAME): NAME is a parameter of the function under verification")
		}
		p, ok := env.X.Entry.Params[args[0].Op]
		if !ok {
			unsupportedf("param(%s): no such parameter", args[0].Op)
		}
		return p
	case "old":
		if env.OldHeap == nil {
			unsupportedf("old() used where no old state exists")
		}
		e2 := *env
		if env.St != nil {
			e2.LocalSt = env.St
		}
		e2.St = nil
		e2.Heap = env.OldHeap
		e2.Epoch = env.OldEpoch
		return v.eval(&e2, args[0])
	case "atlock":
		// atlock(e): e in the state right after the most recent lock acquisition on this path (for assertions at unlock sites)
		ls := env.St
		if ls == nil {
			ls = env.LocalSt
		}
		if ls == nil || len(ls.LockSnaps) == 0 {
			unsupportedf("atlock() used on a path that took no lock")
		}
		snap := ls.LockSnaps[len(ls.LockSnaps)-1]
		e2 := *env
		e2.LocalSt = ls
		e2.St = nil
		e2.Heap = snap.Heap
		e2.Epoch = snap.Epoch
		return v.eval(&e2, args[0])
	case "entry":
		// entry(e): e in the state at the first arrival at the (innermost) loop whose invariant is being stated;
		// after the loop: the state at the first arrival at the last loop entered
		ls := env.St
		if ls == nil {
			ls = env.LocalSt
		}
		if ls == nil || len(ls.LoopEntry) == 0 {
			// the loop was never reached on this path: the current state
			return v.eval(env, args[0])
		}
		best := -1
		for n := range ls.LoopEntry {
			if n > best {
				best = n
			}
		}
		if len(args) == 2 {
			best, _ = strconv.Atoi(args[1].Lit)
		}
		snap := ls.LoopEntry[best]
		e2 := *env
		e2.LocalSt = ls
		e2.St = nil
		e2.Heap = snap.Heap
		e2.Epoch = snap.Epoch
		return v.eval(&e2, args[0])
	case "len":
		a := arg(0)
		switch t := a.T.Underlying().(type) {
		case *types.Slice:
			return intVal(a.Fields[1].Term)
		case *types.Map:
			return intVal(Ite(Eq(a.Term, IntLit(0)), IntLit(0), hs.mapLen(t, a.Term)))
		case *types.Basic:
			return intVal(UF("strlen", SInt, a.Term))
		case *types.Chan:
			return intVal(Select(hs.ghostArr("clen", SInt), a.Term))
		default:
			_ = t
		}
		unsupportedf("len of %s", a.T)
	case "has":
		m := arg(0)
		k := arg(1)
		mt, ok := m.T.Underlying().(*types.Map)
		if !ok {
			unsupportedf("has() on non-map %s", m.T)
		}
		return boolVal(And(Neq(m.Term, IntLit(0)), hs.mapHas(mt, m.Term, k.Term)))
	case "closed":
		c := arg(0)
		return boolVal(And(Neq(c.Term, IntLit(0)), hs.closed(c.Term)))
	case "open":
		c := arg(0)
		return boolVal(Or(Eq(c.Term, IntLit(0)), Not(hs.closed(c.Term))))
	case "smhas", "smval":
		// smhas(M, key) / smval(M, key): ghost table of a sync.Map (keys are boxed as interface values)
		a := v.syncRef(env, args[0])
		var r *Term
		if env.X != nil {
			r = env.X.refOf(a)
		} else {
			r = a.Term
		}
		kv := arg(1)
		var ts []*Term
		flatten(kv, &ts)
		key := kv.Term
		if _, isIface := kv.T.Underlying().(*types.Interface); !isIface {
			key = boxTerm(ts, kv.T)
		}
		if name == "smhas" {
			return boolVal(Select(Select(hs.heapGet("G$smhas", ArrSort(SInt, ArrSort(SInt, SBool))), r), key))
		}
		return &Val{T: types.NewInterfaceType(nil, nil), Term: Select(Select(hs.heapGet("G$smval", ArrSort(SInt, ArrSort(SInt, SInt))), r), key)}
	case "mark":
		// mark(NAME, a, b): monotone ghost relation, set only by `ghost mark NAME(a, b) @SITE when COND` clauses
		fam := "G$mark$" + args[0].Op
		return boolVal(Select(Select(hs.heapGet(fam, ArrSort(SInt, ArrSort(SInt, SBool))), arg(1).Term), arg(2).Term))
	case "closeonly":
		return boolVal(hs.closeOnly(arg(0).Term))
	case "clen":
		return intVal(Select(hs.ghostArr("clen", SInt), arg(0).Term))
	case "ccap":
		return intVal(Select(hs.ghostArr("ccap", SInt), arg(0).Term))
	case "wg":
		a := v.syncRef(env, args[0])
		var r *Term
		if env.X != nil {
			r = env.X.refOf(a)
		} else {
			r = a.Term
		}
		return intVal(Select(hs.ghostArr("wg", SInt), r))
	case "wgref":
		// wgref(W): the identity of a WaitGroup (for the ghost relations wgpending / wgreturned)
		a := v.syncRef(env, args[0])
		if env.X != nil {
			return &Val{T: types.Typ[types.UnsafePointer], Term: env.X.refOf(a)}
		}
		return &Val{T: types.Typ[types.UnsafePointer], Term: a.Term}
	case "wgtoken":
		a := v.syncRef(env, args[0])
		var r *Term
		if env.X != nil {
			r = env.X.refOf(a)
		} else {
			r = a.Term
		}
		return intVal(Select(hs.ghostArr("wgmine", SInt), r))
	case "ncalls":
		n := args[0].Lit
		if args[0].Kind == "ident" {
			n = args[0].Op
		}
		return intVal(hs.ghostInt("ncalls$" + n))
	case "sret", "sarg":
		// sret(LABEL, i, k): i-th result of the k-th call of the statically bound callee labelled LABEL
		idx, _ := strconv.Atoi(args[1].Lit)
		fam := fmt.Sprintf("G$%s$%s$%d", name, args[0].Op, idx)
		srt, ok := heapSorts[fam]
		if !ok {
			srt = ArrSort(SInt, SInt)
			if lt := v.labelType(args[0].Op, name, idx); lt != nil && shapeOf(lt) == shLeaf {
				srt = ArrSort(SInt, leafSort(lt))
			}
		}
		_, es := arrParts(srt)
		t := Select(hs.heapGet(fam, srt), arg(2).Term)
		var ty types.Type = types.Typ[types.Int]
		switch es {
		case SBool:
			ty = types.Typ[types.Bool]
		case SStr:
			ty = types.Typ[types.String]
		}
		return &Val{T: ty, Term: t}
	case "allocated":
		return boolVal(Select(hs.ghostArr("alloc", SBool), arg(0).Term))
	case "fresh":
		// allocated now, not allocated in the old state
		a := arg(0)
		t := a.Term
		if t == nil && a.Fields != nil {
			t = a.Fields[0].Term
		}
		oldAlloc, ok := env.OldHeap["G$alloc"]
		if !ok {
			oldAlloc = Const("G$alloc@0", ArrSort(SInt, SBool))
		}
		return boolVal(And(Neq(t, IntLit(0)), Not(Select(oldAlloc, t)), Select(hs.ghostArr("alloc", SBool), t)))
	case "calls":
		l := args[0].Op
		return intVal(hs.ghostInt("calls$" + l))
	case "arg", "ret", "panicked":
		l := args[0].Op
		if name == "panicked" {
			k := arg(1)
			return boolVal(Select(hs.heapGet("G$panicked$"+l, ArrSort(SInt, SBool)), k.Term))
		}
		idx, _ := strconv.Atoi(args[1].Lit)
		k := arg(2)
		t := v.calleeArgType(env, l, name, idx)
		var ls []leafInfo
		leaves(t, "", &ls)
		ts := make([]*Term, len(ls))
		for i, lf := range ls {
			fam := fmt.Sprintf("G$%s$%s$%d", name, l, idx)
			if len(ls) > 1 {
				fam += "$" + lf.Path
			}
			ts[i] = Select(hs.heapGet(fam, ArrSort(SInt, lf.Sort)), k.Term)
		}
		i := 0
		return unflatten(t, ts, &i)
	case "held":
		if env.St == nil {
			unsupportedf("held() in an old state")
		}
		a := arg(0)
		id := ""
		if env.X != nil {
			id = env.X.refOf(a).String()
		}
		_, ok := env.St.Held[id]
		return boolVal(BoolLit(ok))
	case "heldshared":
		// the RWMutex is held by this thread in read mode (other readers may hold it too)
		if env.St == nil {
			unsupportedf("heldshared() in an old state")
		}
		a := arg(0)
		if a.FP == nil && args[0].Kind == "sel" && env.X != nil {
			a = v.evalLockRef(env, env.X, env.St, args[0])
		}
		id := ""
		if env.X != nil {
			id = env.X.refOf(a).String()
		}
		h, ok := env.St.Held[id]
		return boolVal(BoolLit(ok && h.Read))
	case "boxed":
		a := arg(0)
		if a.T != nil {
			if _, isIface := a.T.Underlying().(*types.Interface); isIface {
				return &Val{T: types.NewInterfaceType(nil, nil), Term: a.Term} // already an interface (or an opaque type parameter)
			}
		}
		var ts []*Term
		flatten(a, &ts)
		return &Val{T: types.NewInterfaceType(nil, nil), Term: boxTerm(ts, a.T)}
	case "isstring":
		a := arg(0)
		return boolVal(And(Neq(a.Term, IntLit(0)), Eq(dynType(a.Term), typeID(types.Typ[types.String]))))
	case "unboxstring":
		return &Val{T: types.Typ[types.String], Term: UF("unbox$string$", SStr, arg(0).Term)}
	case "panicval":
		l := args[0].Op
		return &Val{T: types.NewInterfaceType(nil, nil), Term: Select(hs.heapGet("G$panicval$"+l, ArrSort(SInt, SInt)), arg(1).Term)}
	case "unbox":
		// unbox(v, "pkg.Type", "fieldpath"): the value of a field of the concrete value stored in interface v
		a := arg(0)
		tn := args[1].Lit
		path := args[2].Lit
		bt := v.namedByName(tn)
		if bt == nil {
			unsupportedf("unbox: unknown type %s", tn)
		}
		var ls []leafInfo
		leaves(bt, "", &ls)
		for _, l := range ls {
			if l.Path == path {
				return &Val{T: l.T, Term: UF("unbox$"+tn+"$"+path, l.Sort, a.Term)}
			}
		}
		unsupportedf("unbox: type %s has no leaf %s", tn, path)
	case "implements":
		// implements(v, "pkg.Iface"): the (non-nil) interface value v also implements the named interface - the
		// same term a type assertion v.(pkg.Iface) in code tests
		a := arg(0)
		return boolVal(And(Neq(a.Term, IntLit(0)), UF("implements$"+sanitize(args[1].Lit), SBool, dynType(a.Term))))
	case "hasdyntype":
		a := arg(0)
		tn := args[1].Lit
		var bt types.Type
		if strings.HasPrefix(tn, "*") {
			if n := v.namedByName(tn[1:]); n != nil {
				bt = types.NewPointer(n)
			}
		} else if n := v.namedByName(tn); n != nil {
			bt = n
		}
		if bt == nil {
			unsupportedf("hasdyntype: unknown type %s", tn)
		}
		return boolVal(And(Neq(a.Term, IntLit(0)), Eq(dynType(a.Term), typeID(bt))))
	case "unboxval":
		// unboxval(v, "pkg.T"): the struct value of type T stored in interface value v
		a := arg(0)
		n := v.namedByName(args[1].Lit)
		if n == nil {
			unsupportedf("unboxval: unknown type %s", args[1].Lit)
		}
		var ls []leafInfo
		leaves(n, "", &ls)
		ts := make([]*Term, len(ls))
		for i, l := range ls {
			ts[i] = UF("unbox$"+typeName(n)+"$"+l.Path, l.Sort, a.Term)
		}
		i := 0
		return unflatten(n, ts, &i)
	case "unboxptr":
		// unboxptr(v, "pkg.T"): the *T stored in interface value v
		a := arg(0)
		n := v.namedByName(args[1].Lit)
		if n == nil {
			unsupportedf("unboxptr: unknown type %s", args[1].Lit)
		}
		pt := types.NewPointer(n)
		return &Val{T: pt, Term: UF("unbox$"+typeName(pt)+"$", SInt, a.Term)}
	case "cancelled":
		return boolVal(Select(hs.ghostArr("cancelled", SBool), arg(0).Term))
	case "rcv":
		// rcv(L, k): the receiver of the k-th call of the interface method labelled L
		return &Val{T: types.NewInterfaceType(nil, nil), Term: Select(hs.heapGet("G$rcv$"+args[0].Op, ArrSort(SInt, SInt)), arg(1).Term)}
	case "gf":
		// gf(FIELD, obj): ghost field of a struct object
		o := arg(1)
		ns := namedStruct(pointee(o.T))
		if ns == nil {
			unsupportedf("gf: not a pointer to a struct")
		}
		key := heapKeyField(ns, "#"+args[0].Op)
		srt, rt := v.ghostFieldSort(ns, args[0].Op)
		t := Select(hs.heapGet(key, ArrSort(SInt, srt)), o.Term)
		return &Val{T: rt, Term: t}
	case "spawned":
		return intVal(hs.ghostInt("spawned$" + args[0].Lit))
	case "spawnfv":
		// spawnfv("(*T).f$1", "x", k): the value of captured variable x when the k-th goroutine running that closure was started
		fam := fmt.Sprintf("G$spawnfv$%s$%s", args[0].Lit, args[1].Lit)
		srt := SInt
		if s0, ok := heapSorts[fam]; ok {
			_, srt = arrParts(s0)
		}
		return &Val{T: types.Typ[types.UnsafePointer], Term: Select(hs.heapGet(fam, ArrSort(SInt, srt)), arg(2).Term)}
	case "spawnarg":
		if fn := v.P.Funcs[env.Pkg.Name()+"."+args[0].Lit]; fn != nil {
			var ai int
			fmt.Sscanf(args[1].Lit, "%d", &ai)
			if ai < len(fn.Params) && shapeOf(fn.Params[ai].Type()) == shSlice {
				pre := fmt.Sprintf("G$spawnarg$%s$%d$", args[0].Lit, ai)
				k := arg(2).Term
				return &Val{T: fn.Params[ai].Type(), Fields: []*Val{{Term: Select(hs.heapGet(pre+"base", ArrSort(SInt, SInt)), k)}, {Term: Select(hs.heapGet(pre+"len", ArrSort(SInt, SInt)), k)}}}
			}
		}
		fam := fmt.Sprintf("G$spawnarg$%s$%s", args[0].Lit, args[1].Lit)
		srt := SInt
		var at types.Type = types.Typ[types.UnsafePointer]
		if fn := v.P.Funcs[env.Pkg.Name()+"."+args[0].Lit]; fn != nil {
			var ai int
			fmt.Sscanf(args[1].Lit, "%d", &ai)
			if ai < len(fn.Params) && shapeOf(fn.Params[ai].Type()) == shLeaf {
				at = fn.Params[ai].Type()
				srt = leafSort(at)
			}
		}
		if s0, ok := heapSorts[fam]; ok {
			_, srt = arrParts(s0)
		}
		return &Val{T: at, Term: Select(hs.heapGet(fam, ArrSort(SInt, srt)), arg(2).Term)}
	case "recvs":
		return intVal(hs.ghostInt("recvs$" + exprText(args[0])))
	case "sends":
		return intVal(hs.ghostInt("sends$" + exprText(args[0])))
	case "recvd":
		n := exprText(args[0])
		return &Val{T: types.Typ[types.UnsafePointer], Term: Select(hs.heapGet("G$recv$"+n, ArrSort(SInt, SInt)), arg(1).Term)}
	case "sent":
		n := exprText(args[0])
		return &Val{T: types.Typ[types.UnsafePointer], Term: Select(hs.heapGet("G$sent$"+n, ArrSort(SInt, SInt)), arg(1).Term)}
	case "jsonfield", "jsonbytes", "jsonhas", "jsonval":
		// jsonfield(B, "pkg.Type", "Field"): the value json decoding assigns to that field for encoded bytes B
		B := arg(0)
		ns := v.namedByName(args[1].Lit)
		if ns == nil {
			unsupportedf("%s: unknown type %s", name, args[1].Lit)
		}
		ft := fieldTypeAt(ns, []string{args[2].Lit})
		switch name {
		case "jsonfield":
			return &Val{T: ft, Term: UF(jsonFn(ns, args[2].Lit, ""), leafSort(ft), B.Term)}
		case "jsonbytes":
			return &Val{T: types.Typ[types.String], Term: UF(jsonFn(ns, args[2].Lit, "$bytes"), SStr, B.Term)}
		case "jsonhas":
			return boolVal(UF(jsonFn(ns, args[2].Lit, "$has"), SBool, B.Term, arg(3).Term))
		default:
			mt := ft.Underlying().(*types.Map)
			return &Val{T: mt.Elem(), Term: UF(jsonFn(ns, args[2].Lit, "$val"), leafSort(mt.Elem()), B.Term, arg(3).Term)}
		}
	case "isclosure":
		// isclosure(f, "pkg.Func$1"): f is a closure of that function literal (or that function itself)
		fn := v.P.Funcs[args[1].Lit]
		if fn == nil {
			// synthetic wrappers (bound method values) are not package members: find them by name
			parts := strings.SplitN(args[1].Lit, ".", 2)
			var names []string
			for f := range v.P.All {
				if len(parts) == 2 && strings.Contains(f.String(), "/"+parts[0]+".") && (strings.HasSuffix(f.String(), strings.TrimPrefix(parts[1], "(*")) || strings.HasSuffix(strings.ReplaceAll(f.String(), modulePath+"/", ""), parts[1])) {
					names = append(names, f.String())
				}
			}
			sort.Strings(names)
			if len(names) > 0 {
				for f := range v.P.All {
					if f.String() == names[0] {
						fn = f
					}
				}
			}
		}
		if fn == nil {
			unsupportedf("isclosure: unknown function %s", args[1].Lit)
		}
		a := arg(0)
		id := UF("fn$"+fn.String(), SInt)
		return boolVal(And(Neq(a.Term, IntLit(0)), Or(Eq(UF("closurefn", SInt, a.Term), id), Eq(a.Term, id))))
	case "closurevar":
		if len(args) == 3 {
			// closurevar(f, "pkg.Func$2", "name"): the captured variable of that name (typed)
			fn := v.P.Funcs[args[1].Lit]
			if fn == nil {
				unsupportedf("closurevar: unknown function %s", args[1].Lit)
			}
			for bi, fvr := range fn.FreeVars {
				if fvr.Name() == args[2].Lit {
					ft := pointee(fvr.Type())
					if ft == nil || shapeOf(ft) != shLeaf {
						unsupportedf("closurevar: captured variable %s is not a scalar", args[2].Lit)
					}
					return &Val{T: ft, Term: UF(closureVarFn(bi, leafSort(ft)), leafSort(ft), arg(0).Term)}
				}
			}
			unsupportedf("closurevar: %s captures no variable %s", args[1].Lit, args[2].Lit)
		}
		idx, _ := strconv.Atoi(args[1].Lit)
		return &Val{T: types.Typ[types.UnsafePointer], Term: UF(fmt.Sprintf("closurevar$%d", idx), SInt, arg(0).Term)}
	case "jsondecval":
		// jsondecval(B, x): the value json decoding yields for bytes B in a variable of x's (opaque) type
		a := arg(1)
		return &Val{T: a.T, Term: UF("json$dec$"+typeName(a.T), leafSort(a.T), arg(0).Term)}
	case "jsonenc":
		return &Val{T: types.Typ[types.String], Term: UF("json$enc", SStr, arg(0).Term)}
	case "jsondecoded", "protodecoded":
		return &Val{T: types.Typ[types.String], Term: Select(hs.ghostArr(name, SStr), arg(0).Term)}
	case "real":
		return &Val{T: types.Typ[types.Float64], Term: toReal(arg(0).Term)}
	case "trunc":
		return intVal(truncReal(arg(0).Term))
	case "errtext":
		return &Val{T: types.Typ[types.String], Term: UF("error$Error", SStr, arg(0).Term)}
	case "dyntype":
		return intVal(dynType(arg(0).Term))
	case "typeid":
		t := v.resolveType(env, exprText(args[0]))
		return intVal(typeID(t))
	case "bytes":
		// abstract byte-string value of a []byte
		a := arg(0)
		sl := a.T.Underlying().(*types.Slice)
		h := hs.heapGet(sliceHeapKey(sl.Elem(), ""), ArrSort(SInt, ArrSort(SInt, SInt)))
		return &Val{T: types.Typ[types.String], Term: UF("bytes_str", SStr, Select(h, a.Fields[0].Term), a.Fields[1].Term)}
	case "visited":
		if env.X == nil || env.St == nil {
			unsupportedf("visited() outside a loop invariant")
		}
		k := arg(0)
		it := env.X.currentIter(env.St, k.Term.Sort)
		if it == nil {
			unsupportedf("visited(): no live map iterator")
		}
		return boolVal(Select(env.St.heapGet(it.Visited, ArrSort(k.Term.Sort, SBool)), k.Term))
	case "visitedcount":
		if env.X == nil || env.St == nil || len(env.St.LiveIters) == 0 {
			unsupportedf("visitedcount() outside a loop invariant")
		}
		it := env.St.LiveIters[len(env.St.LiveIters)-1]
		return intVal(env.St.heapGet(it.Visited+"$n", SInt))
	case "base":
		return &Val{T: types.Typ[types.UnsafePointer], Term: arg(0).Fields[0].Term}
	case "deref":
		// the value a pointer to a non-struct type points to (pointers to structs are dereferenced by field selection)
		a := arg(0)
		et := pointee(a.T)
		if et == nil || a.Term == nil || namedStruct(et) != nil {
			unsupportedf("deref: argument must be a pointer to a non-struct value")
		}
		hs := env.hs()
		var ls []leafInfo
		leaves(et, "", &ls)
		ts := make([]*Term, len(ls))
		for k, l := range ls {
			ts[k] = Select(hs.heapGet("B$"+typeName(et)+"$"+l.Path, ArrSort(SInt, l.Sort)), a.Term)
		}
		k := 0
		return unflatten(et, ts, &k)
	case "bytesstr":
		// the string a byte slice converts to (same term as the conversion string(b) in code)
		a := arg(0)
		sl, ok := a.T.Underlying().(*types.Slice)
		if !ok || len(a.Fields) < 2 {
			unsupportedf("bytesstr: argument must be a byte slice")
		}
		hs := env.hs()
		h := hs.heapGet(sliceHeapKey(sl.Elem(), ""), ArrSort(SInt, ArrSort(SInt, SInt)))
		return &Val{T: types.Typ[types.String], Term: UF("bytes_str", SStr, Select(h, a.Fields[0].Term), a.Fields[1].Term)}
	case "ref":
		a := arg(0)
		if env.X != nil {
			return &Val{T: types.Typ[types.UnsafePointer], Term: env.X.refOf(a)}
		}
		return &Val{T: types.Typ[types.UnsafePointer], Term: a.Term}
	}
	if sf := v.lookupSpec(env, name); sf != nil {
		var avs []*Val
		for i := range args {
			avs = append(avs, arg(i))
		}
		return v.applySpec(env, sf, avs)
	}
	unsupportedf("unknown function %q in contract", name)
	return nil
}

func exprText(e *Expr) string {
	switch e.Kind {
	case "ident":
		return e.Op
	case "sel":
		return exprText(e.Args[0]) + "." + e.Op
	case "unop":
		return e.Op + exprText(e.Args[0])
	}
	return e.String()
}

// calleeArgType finds the type of the i-th argument/result of the callee labelled l.
func (v *Verifier) calleeArgType(env *Env, l, kind string, idx int) types.Type {
	if env.X == nil {
		unsupportedf("arg/ret outside a function contract")
	}
	if t, ok := env.X.calleeTypes[fmt.Sprintf("%s$%s$%d", kind, l, idx)]; ok {
		return t
	}
	// the label may be declared by another function's contract (its log is global ghost state)
	if v.labelSiteTypes == nil {
		v.labelSiteTypes = map[string]types.Type{}
		var keys []string
		for k := range v.C.Funcs {
			keys = append(keys, k)
		}
		sort.Strings(keys)
		for _, k := range keys {
			fc := v.C.Funcs[k]
			fn := v.P.Funcs[k]
			if fn == nil || len(fc.Of("callee")) == 0 {
				continue
			}
			tx := &Exec{V: v, Fn: fn, FC: fc, calleeTypes: map[string]types.Type{}, chanKeys: map[string]string{}}
			tx.prescan()
			for kk, t := range tx.calleeTypes {
				if _, dup := v.labelSiteTypes[kk]; !dup {
					v.labelSiteTypes[kk] = t
				}
			}
		}
	}
	if t, ok := v.labelSiteTypes[fmt.Sprintf("%s$%s$%d", kind, l, idx)]; ok {
		return t
	}
	unsupportedf("no call site bound to callee label %s (for %s %d)", l, kind, idx)
	return nil
}

func (v *Verifier) applySpec(env *Env, sf *SpecFunc, args []*Val) *Val {
	if len(args) != len(sf.Params) {
		unsupportedf("spec %s expects %d arguments", sf.Name, len(sf.Params))
	}
	specPkg := v.P.TPkgs[sf.Pkg]
	if sf.Uninterp {
		e2 := *env
		if specPkg != nil {
			e2.Pkg = specPkg
		}
		rt := v.resolveType(&e2, sf.Ret)
		var ts []*Term
		for _, a := range args {
			flatten(a, &ts)
		}
		var ls []leafInfo
		leaves(rt, "", &ls)
		rs := make([]*Term, len(ls))
		for i, l := range ls {
			n := "spec$" + sf.Pkg + "." + sf.Name
			if len(ls) > 1 {
				n += "$" + l.Path
			}
			rs[i] = UF(n, l.Sort, ts...)
		}
		i := 0
		return unflatten(rt, rs, &i)
	}
	if sf.Rec {
		return v.applyRecSpec(env, sf, args)
	}
	e2 := *env
	e2.Vars = map[string]*Val{}
	for k, x := range env.Vars {
		e2.Vars[k] = x
	}
	if specPkg != nil {
		e2.Pkg = specPkg
	}
	for i, p := range sf.Params {
		a := args[i]
		if a != nil && a.Term != nil && a.Fields == nil && p.Type != "" {
			// an untyped ghost value (e.g. a logged call argument) takes the declared parameter type
			if _, isPtr := a.T.(*types.Pointer); !isPtr {
				if pt := v.resolveType(&e2, p.Type); pt != nil && leafSortOK(pt, a.Term.Sort) {
					a = &Val{T: pt, Term: a.Term}
				}
			}
		}
		e2.Vars[p.Name] = a
	}
	e2.Fn = nil
	return v.eval(&e2, sf.Body)
}

// ghostFieldSort: sort and type of a declared ghost field (type clause ghostfield NAME TYPE); references by default.
func (v *Verifier) ghostFieldSort(ns *types.Named, name string) (Sort, types.Type) {
	var rt types.Type = types.Typ[types.UnsafePointer]
	if tc := v.C.Types[typeName(ns)]; tc != nil {
		if gt, ok := tc.GhostFields[name]; ok {
			e2 := &Env{V: v, Pkg: v.P.TPkgs[tc.Pkg], Vars: map[string]*Val{}}
			rt = v.resolveType(e2, gt)
			if shapeOf(rt) == shLeaf {
				return leafSort(rt), rt
			}
		}
	}
	return SInt, rt
}

// closureVarFn: name of the function giving a closure's idx-th captured value (one per sort).
func closureVarFn(idx int, s Sort) string {
	if s == SInt {
		return fmt.Sprintf("closurevar$%d", idx)
	}
	return fmt.Sprintf("closurevar$%d$%s", idx, sanitize(string(s)))
}

func leafSortOK(t types.Type, s Sort) bool {
	return shapeOf(t) == shLeaf && leafSort(t) == s
}

// ---- recursive spec functions -> define-fun-rec ----

func (v *Verifier) applyRecSpec(env *Env, sf *SpecFunc, args []*Val) *Val {
	specPkg := v.P.TPkgs[sf.Pkg]
	fname := "rec$" + sf.Pkg + "." + sf.Name
	e2 := &Env{V: v, Pkg: specPkg, Vars: map[string]*Val{}, Heap: map[string]*Term{}}
	rt := v.resolveType(e2, sf.Ret)
	if shapeOf(rt) != shLeaf {
		unsupportedf("recursive spec %s must return a scalar", sf.Name)
	}
	def, ok := v.recSpecs[fname]
	if !ok {
		// build the definition once, with placeholder parameters and heap placeholders
		def = &recSpecDef{Name: fname}
		v.recSpecs[fname] = def // allow recursion to see it
		def.Ret = leafSort(rt)
		for _, p := range sf.Params {
			pt := v.resolveType(e2, p.Type)
			pv := freshVal(pt, "p$"+p.Name)
			e2.Vars[p.Name] = pv
			var ts []*Term
			flatten(pv, &ts)
			def.ParamTerms = append(def.ParamTerms, ts...)
			def.ParamVals = append(def.ParamVals, pv)
		}
		e2.Epoch = 777777 // heap placeholders: name@777777
		def.building = true
		body := v.eval(e2, sf.Body)
		def.building = false
		// heap placeholders used
		var hn []string
		for k := range e2.Heap {
			hn = append(hn, k)
		}
		sort.Strings(hn)
		def.HeapFams = hn
		for _, k := range hn {
			def.HeapTerms = append(def.HeapTerms, e2.Heap[k])
		}
		// rewrite self-calls made while building (they lacked heap args)
		bodyT := fixRecCalls(body.Term, def)
		var ps []string
		for _, t := range append(append([]*Term{}, def.ParamTerms...), def.HeapTerms...) {
			ps = append(ps, fmt.Sprintf("(%s %s)", t.Op, t.Sort))
		}
		recDefs[smtName(fname)] = fmt.Sprintf("(define-fun-rec %s (%s) %s %s)", smtName(fname), strings.Join(ps, " "), def.Ret, bodyT.String())
		def.Body = bodyT
		recDefBodies[smtName(fname)] = bodyT
		recDefParams[smtName(fname)] = append(append([]*Term{}, def.ParamTerms...), def.HeapTerms...)
	}
	var ts []*Term
	for _, a := range args {
		flatten(a, &ts)
	}
	if def.building {
		// recursive occurrence: heap arguments appended later by fixRecCalls
		t := mk(kUF, smtName(fname)+"$partial", def.Ret, ts...)
		return &Val{T: rt, Term: t}
	}
	hs := env.hs()
	for _, k := range def.HeapFams {
		ts = append(ts, hs.heapGet(k, heapSorts[k]))
	}
	return &Val{T: rt, Term: mk(kUF, smtName(fname), def.Ret, ts...)}
}

type recSpecDef struct {
	Name       string
	Ret        Sort
	ParamTerms []*Term
	ParamVals  []*Val
	HeapFams   []string
	HeapTerms  []*Term
	Body       *Term
	building   bool
}

func fixRecCalls(t *Term, def *recSpecDef) *Term {
	cache := map[*Term]*Term{}
	var rec func(t *Term) *Term
	rec = func(t *Term) *Term {
		if r, ok := cache[t]; ok {
			return r
		}
		var r *Term
		if len(t.Args) == 0 {
			r = t
		} else {
			na := make([]*Term, len(t.Args))
			for i, a := range t.Args {
				na[i] = rec(a)
			}
			if t.Kind == kUF && t.Op == smtName(def.Name)+"$partial" {
				r = mk(kUF, smtName(def.Name), def.Ret, append(na, def.HeapTerms...)...)
			} else if t.Kind == kQuant {
				if t.Op == "forall" {
					r = Forall(t.Bound, na[0])
				} else {
					r = Exists(t.Bound, na[0])
				}
			} else {
				r = mk(t.Kind, t.Op, t.Sort, na...)
			}
		}
		cache[t] = r
		return r
	}
	return rec(t)
}

// syncRef evaluates an expression denoting a sync primitive: a value field x.f denotes its address.
func (v *Verifier) syncRef(env *Env, e *Expr) *Val {
	if e.Kind == "sel" {
		base := v.eval(env, e.Args[0])
		if base.Term != nil && base.Fields == nil && pointee(base.T) != nil {
			if ns := namedStruct(pointee(base.T)); ns != nil {
				ft := fieldTypeAt(ns, []string{e.Op})
				if _, isPtr := ft.Underlying().(*types.Pointer); !isPtr {
					return &Val{T: types.NewPointer(ft), FP: &FieldPtr{Base: base.Term, Root: ns, Path: []string{e.Op}, T: ft}}
				}
			}
		}
	}
	return v.eval(env, e)
}
