package main

import (
	"fmt"
	"go/token"
	"go/types"
	"os"
	"sort"
	"strings"

	"golang.org/x/tools/go/packages"
	"golang.org/x/tools/go/ssa"
	"golang.org/x/tools/go/ssa/ssautil"
)

const modulePath = "github.com/ThreeDotsLabs/watermill"

type Program struct {
	Repo   string
	Fset   *token.FileSet
	Prog   *ssa.Program
	Pkgs   []*ssa.Package
	TPkgs  map[string]*types.Package // by short name, repo packages only
	Funcs  map[string]*ssa.Function  // key: pkgname.RelString
	All    map[*ssa.Function]bool
	Loops  map[*ssa.Function][]*Loop
}

func LoadProgram(repo string, patterns []string) (*Program, error) {
	cfg := &packages.Config{
		Mode: packages.NeedName | packages.NeedFiles | packages.NeedCompiledGoFiles | packages.NeedImports |
			packages.NeedTypes | packages.NeedTypesSizes | packages.NeedSyntax | packages.NeedTypesInfo | packages.NeedDeps | packages.NeedModule,
		Dir:   repo,
		Tests: false,
		BuildFlags: []string{"-tags=verif"},
		Env:   append(os.Environ(), "GOFLAGS=-mod=mod", "GOPROXY=off", "GOSUMDB=off", "GOTOOLCHAIN=local"),
	}
	pkgs, err := packages.Load(cfg, patterns...)
	if err != nil {
		return nil, err
	}
	var errs []string
	packages.Visit(pkgs, nil, func(p *packages.Package) {
		for _, e := range p.Errors {
			errs = append(errs, e.Error())
		}
	})
	if len(errs) > 0 {
		return nil, fmt.Errorf("type errors loading %s: %s", repo, strings.Join(errs, "; "))
	}
	prog, spkgs := ssautil.AllPackages(pkgs, ssa.NaiveForm|ssa.InstantiateGenerics)
	for _, sp := range spkgs {
		if sp != nil {
			sp.Build()
		}
	}
	for _, extra := range strings.Fields(os.Getenv("GOWP_BUILD_DEPS")) {
		for _, sp := range prog.AllPackages() {
			if sp.Pkg.Path() == extra {
				sp.Build()
			}
		}
	}
	p := &Program{Repo: repo, Prog: prog, Funcs: map[string]*ssa.Function{}, TPkgs: map[string]*types.Package{}, Loops: map[*ssa.Function][]*Loop{}}
	if len(pkgs) > 0 {
		p.Fset = pkgs[0].Fset
	}
	for _, sp := range spkgs {
		if sp != nil {
			p.Pkgs = append(p.Pkgs, sp)
		}
	}
	p.All = ssautil.AllFunctions(prog)
	for fn := range p.All {
		if fn.Pkg == nil && fn.Origin() == nil {
			continue
		}
		pk := fn.Package()
		if pk == nil || pk.Pkg == nil {
			continue
		}
		if !strings.HasPrefix(pk.Pkg.Path(), modulePath) {
			continue
		}
		key := pk.Pkg.Name() + "." + fn.RelString(pk.Pkg)
		p.Funcs[key] = fn
		p.TPkgs[pk.Pkg.Name()] = pk.Pkg
	}
	// methods of generic types are not reachable through AllFunctions: add their generic bodies
	for _, sp := range p.Pkgs {
		if !strings.HasPrefix(sp.Pkg.Path(), modulePath) {
			continue
		}
		sc := sp.Pkg.Scope()
		for _, n := range sc.Names() {
			tn, ok := sc.Lookup(n).(*types.TypeName)
			if !ok {
				continue
			}
			nt, ok := tn.Type().(*types.Named)
			if !ok || nt.TypeParams() == nil || nt.TypeParams().Len() == 0 {
				continue
			}
			for i := 0; i < nt.NumMethods(); i++ {
				fn := prog.FuncValue(nt.Method(i))
				if fn == nil {
					continue
				}
				p.addGeneric(fn)
			}
		}
	}
	return p, nil
}

func (p *Program) addGeneric(fn *ssa.Function) {
	if p.All[fn] {
		return
	}
	p.All[fn] = true
	pk := fn.Package()
	if pk != nil && pk.Pkg != nil {
		p.Funcs[pk.Pkg.Name()+"."+fn.RelString(pk.Pkg)] = fn
		p.TPkgs[pk.Pkg.Name()] = pk.Pkg
	}
	for _, af := range fn.AnonFuncs {
		p.addGeneric(af)
	}
}

func (p *Program) FuncKey(fn *ssa.Function) string {
	pk := fn.Package()
	if pk == nil || pk.Pkg == nil {
		return fn.String()
	}
	return pk.Pkg.Name() + "." + fn.RelString(pk.Pkg)
}

func (p *Program) Pos(pos token.Pos) string {
	if !pos.IsValid() {
		return "-"
	}
	ps := p.Fset.Position(pos)
	return fmt.Sprintf("%s:%d", strings.TrimPrefix(ps.Filename, p.Repo+"/"), ps.Line)
}

// ---- loops ----

type Loop struct {
	Header *ssa.BasicBlock
	Blocks map[*ssa.BasicBlock]bool
	N      int // 1-based ordinal in source order
	Pos    token.Pos
}

func blockPos(b *ssa.BasicBlock) token.Pos {
	for _, in := range b.Instrs {
		if in.Pos().IsValid() {
			return in.Pos()
		}
	}
	return token.NoPos
}

func (p *Program) LoopsOf(fn *ssa.Function) []*Loop {
	if ls, ok := p.Loops[fn]; ok {
		return ls
	}
	byHeader := map[*ssa.BasicBlock]*Loop{}
	for _, b := range fn.Blocks {
		for _, s := range b.Succs {
			if s.Dominates(b) { // back edge b -> s
				l := byHeader[s]
				if l == nil {
					l = &Loop{Header: s, Blocks: map[*ssa.BasicBlock]bool{s: true}}
					byHeader[s] = l
				}
				// natural loop: all blocks that reach b without passing s
				var stack []*ssa.BasicBlock
				if !l.Blocks[b] {
					l.Blocks[b] = true
					stack = append(stack, b)
				}
				for len(stack) > 0 {
					x := stack[len(stack)-1]
					stack = stack[:len(stack)-1]
					for _, pr := range x.Preds {
						if !l.Blocks[pr] {
							l.Blocks[pr] = true
							stack = append(stack, pr)
						}
					}
				}
			}
		}
	}
	var ls []*Loop
	for _, l := range byHeader {
		// position: smallest valid position among loop blocks
		best := token.NoPos
		for b := range l.Blocks {
			for _, in := range b.Instrs {
				if ps := in.Pos(); ps.IsValid() && (!best.IsValid() || ps < best) {
					best = ps
				}
			}
		}
		l.Pos = best
		ls = append(ls, l)
	}
	sort.Slice(ls, func(i, j int) bool {
		if ls[i].Pos != ls[j].Pos {
			return ls[i].Pos < ls[j].Pos
		}
		return ls[i].Header.Index < ls[j].Header.Index
	})
	for i, l := range ls {
		l.N = i + 1
	}
	p.Loops[fn] = ls
	return ls
}

func (p *Program) LoopAt(fn *ssa.Function, b *ssa.BasicBlock) *Loop {
	for _, l := range p.LoopsOf(fn) {
		if l.Header == b {
			return l
		}
	}
	return nil
}
