package main

// Builtins, models of sync primitives, channels, range, go, interference, lock discipline.

import (
	"fmt"
	"go/token"
	"go/types"
	"sort"
	"strings"

	"golang.org/x/tools/go/ssa"
)

func (x *Exec) builtin(st *State, fr *Frame, dst ssa.Value, b *ssa.Builtin, args []*Val, pos token.Pos, isDefer bool) {
	set := func(v *Val) {
		if dst != nil {
			fr.Regs[dst] = v
		}
	}
	switch b.Name() {
	case "len":
		a := args[0]
		switch t := a.T.Underlying().(type) {
		case *types.Slice:
			set(intVal(a.Fields[1].Term))
		case *types.Map:
			ln := st.mapLen(t, a.Term)
			st.Assume(Ge(ln, IntLit(0)))
			set(intVal(Ite(Eq(a.Term, IntLit(0)), IntLit(0), ln)))
		case *types.Basic:
			ln := UF("strlen", SInt, a.Term)
			st.Assume(Ge(ln, IntLit(0)))
			st.Assume(Eq(UF("strlen", SInt, strEmpty), IntLit(0)))
			st.Assume(Implies(Eq(ln, IntLit(0)), Eq(a.Term, strEmpty)))
			set(intVal(ln))
		case *types.Chan:
			set(intVal(Select(st.ghostArr("clen", SInt), a.Term)))
		default:
			_ = t
			unsupportedf("len of %s", a.T)
		}
	case "cap":
		a := args[0]
		if a.Fields != nil {
			c := UF("cap$slice", SInt, a.Fields[0].Term, a.Fields[1].Term)
			st.Assume(Ge(c, a.Fields[1].Term))
			set(intVal(c))
			return
		}
		set(intVal(Select(st.ghostArr("ccap", SInt), a.Term)))
	case "append":
		if len(args) == 1 {
			set(args[0])
			return
		}
		set(x.appendOp(st, args[0], args[1], args[0].T))
	case "copy":
		dstv, src := args[0], args[1]
		sl, ok := dstv.T.Underlying().(*types.Slice)
		if !ok || src.Fields == nil {
			unsupportedf("builtin copy on %s", dstv.T)
		}
		n := Ite(Le(dstv.Fields[1].Term, src.Fields[1].Term), dstv.Fields[1].Term, src.Fields[1].Term)
		var ls []leafInfo
		leaves(sl.Elem(), "", &ls)
		for _, l := range ls {
			key := sliceHeapKey(sl.Elem(), l.Path)
			h := st.heapGet(key, ArrSort(SInt, ArrSort(SInt, l.Sort)))
			A := Fresh("copy$"+sanitize(l.Path), ArrSort(SInt, l.Sort))
			j := BoundVar("j", SInt)
			st.Assume(Forall([]*Term{j}, Eq(Select(A, j), Ite(And(Ge(j, IntLit(0)), Lt(j, n)), Select(Select(h, src.Fields[0].Term), j), Select(Select(h, dstv.Fields[0].Term), j)))))
			st.Heap[key] = Store(h, dstv.Fields[0].Term, A)
		}
		set(intVal(n))
	case "delete":
		mt := args[0].T.Underlying().(*types.Map)
		st.mapDelete(mt, args[0].Term, x.keyTerm(args[1]))
	case "close":
		ch := args[0]
		ap := ""
		var closeArg ssa.Value
		if x.curDefer != nil && len(x.curDefer.Call.Args) > 0 {
			closeArg = x.curDefer.Call.Args[0] // a deferred close(ch): named as written at the defer statement
		} else if c, ok := currentCall(fr).(*ssa.Call); ok && len(c.Call.Args) > 0 {
			closeArg = c.Call.Args[0]
		}
		if closeArg != nil {
			ap = accessPath(closeArg)
		}
		if ap == "" {
			ap = "chan"
		}
		x.siteAsserts(st, fr, "close:"+ap, pos)
		k := x.site(st, "close:"+ap)
		x.oblige(st, "nopanic", fmt.Sprintf("nopanic:close-of-nil@%s#%d", ap, k), Neq(ch.Term, IntLit(0)), pos, "")
		x.oblige(st, "nopanic", fmt.Sprintf("nopanic:close-of-closed@%s#%d", ap, k), Not(st.closed(ch.Term)), pos, "")
		st.Assume(Neq(ch.Term, IntLit(0)))
		st.setClosed(ch.Term)
		if closeArg != nil {
			if u, ok := closeArg.(*ssa.UnOp); ok {
				if fa, ok := u.X.(*ssa.FieldAddr); ok {
					if ns := namedStruct(pointee(fa.X.Type())); ns != nil {
						if bv, ok := fr.Regs[fa.X]; ok && bv.Term != nil {
							x.checkStrong(st, ns, bv.Term, "close:"+ap, pos)
							// closing the channel of a guarded field counts as a write of that field
							fname := ns.Underlying().(*types.Struct).Field(fa.Field).Name()
							x.guardCheck(st, &FieldPtr{Base: bv.Term, Root: ns, Path: []string{fname}, T: args[0].T}, true, pos)
							if tc := x.V.C.Types[typeName(ns)]; tc != nil && tc.ChanUnder[fname] != "" && !st.FreshRefs[bv.Term.Op] {
								cls := tc.ChanUnder[fname]
								kk := x.site(st, "closeunder:"+fname)
								name := fmt.Sprintf("guarded:close-of-%s-under-%s#%d", fname, cls, kk)
								if x.holdsLockClass(st, cls, true) {
									x.oblige(st, "guarded", name, True, pos, "")
								} else {
									x.failHard(st, "guarded", name, pos, "close of "+typeName(ns)+"."+fname+" without holding a lock of class "+cls)
								}
							}
						}
					}
				}
			}
		}
	case "recover":
		// Go >= 1.21: recover() is non-nil while panicking (panic(nil) becomes *runtime.PanicNilError)
		if st.Panicking && fr.IsDeferCall {
			pv := st.PanicVal
			st.Panicking = false
			st.Assume(Neq(pv.Term, IntLit(0)))
			set(&Val{T: types.NewInterfaceType(nil, nil), Term: pv.Term})
			st.Trace = append(st.Trace, "recovered")
			x.note("recover() returns a non-nil value while panicking (Go >= 1.21 semantics, go.mod says go 1.21)")
			return
		}
		set(&Val{T: types.NewInterfaceType(nil, nil), Term: IntLit(0)})
	case "print", "println":
	case "ssa:wrapnilchk":
		x.nilCheck(st, args[0], "wrapnilchk", pos)
		set(args[0])
	case "ssa:deferstack":
		set(&Val{T: b.Type(), Term: IntLit(0)})
	case "min", "max":
		a, c := args[0].Term, args[1].Term
		if b.Name() == "min" {
			set(&Val{T: args[0].T, Term: Ite(Le(a, c), a, c)})
		} else {
			set(&Val{T: args[0].T, Term: Ite(Ge(a, c), a, c)})
		}
	default:
		unsupportedf("builtin %s", b.Name())
	}
}

func currentCall(fr *Frame) ssa.Instruction {
	if fr.Idx-1 >= 0 && fr.Idx-1 < len(fr.Blk.Instrs) {
		return fr.Blk.Instrs[fr.Idx-1]
	}
	return nil
}

// ---- models of library functions that carry ghost state ----

func (x *Exec) model(st *State, fr *Frame, dst ssa.Value, callee *ssa.Function, full string, args []*Val, pos token.Pos) bool {
	switch full {
	case "(*sync.Mutex).Lock", "(*sync.RWMutex).Lock":
		x.lock(st, fr, args[0], false, pos)
	case "(*sync.RWMutex).RLock":
		x.lock(st, fr, args[0], true, pos)
	case "(*sync.Mutex).Unlock", "(*sync.RWMutex).Unlock":
		x.unlock(st, fr, args[0], false, pos)
	case "(*sync.RWMutex).RUnlock":
		x.unlock(st, fr, args[0], true, pos)
	case "(*sync.WaitGroup).Add":
		r := x.refOf(args[0])
		x.siteAsserts(st, fr, "wgadd:"+x.argPath(fr, 0), pos)
		if args[0].FP == nil || !st.FreshRefs[args[0].FP.Base.Op] {
			x.interfere(st, "WaitGroup.Add") // an atomic step on shared state: whatever no held lock protects may have moved
		}
		wgBefore := copyHeap(st.Heap)
		defer x.checkWgGuarantee(st, args[0], wgBefore, "add", pos)
		x.wgAddRule(st, fr, pos)
		wg := st.ghostArr("wg", SInt)
		st.Assume(Ge(Select(wg, r), IntLit(0)))
		nv := Add(Select(wg, r), args[1].Term)
		k := x.site(st, "wgadd")
		x.oblige(st, "nopanic", fmt.Sprintf("nopanic:waitgroup-negative@add#%d", k), Ge(nv, IntLit(0)), pos, "")
		st.setGhostArr("wg", Store(wg, r, nv))
		mine := st.ghostArr("wgmine", SInt)
		st.Assume(Ge(Select(mine, r), IntLit(0))) // a thread never owns a negative number of tokens
		st.setGhostArr("wgmine", Store(mine, r, Add(Select(mine, r), args[1].Term)))
		if x.worder() != nil {
			if rv := x.recvOperand(fr); rv != nil {
				x.addWaitOblig(st, waitOblig{"wg", r, x.classOfValue(st, rv, x.argPath(fr, 0)), "a token of " + x.argPath(fr, 0)})
			}
		}
	case "(*sync.WaitGroup).Done":
		r := x.refOf(args[0])
		wg := st.ghostArr("wg", SInt)
		x.siteAsserts(st, fr, "wgdone:"+x.argPath(fr, 0), pos)
		x.givesAt(st, fr, "wgdone:"+x.argPath(fr, 0), pos)
		if subj, ok := st.TokenSubject[r.Key()]; ok {
			x.setMark(st, "wgreturned", r, subj)
		}
		k := x.site(st, "wgdone")
		mine := st.ghostArr("wgmine", SInt)
		// Done() needs a token this thread owns: otherwise the counter may go negative (panic)
		x.oblige(st, "nopanic", fmt.Sprintf("nopanic:waitgroup-negative@done#%d", k), Gt(Select(mine, r), IntLit(0)), pos, "")
		st.Assume(Gt(Select(wg, r), IntLit(0)))
		st.setGhostArr("wg", Store(wg, r, Sub(Select(wg, r), IntLit(1))))
		st.setGhostArr("wgmine", Store(mine, r, Sub(Select(mine, r), IntLit(1))))
	case "(*sync.WaitGroup).Wait":
		r := x.refOf(args[0])
		x.siteAsserts(st, fr, "wgwait:"+x.argPath(fr, 0), pos)
		if x.FC != nil && len(st.Frames) == 1 {
			// `ghost nowait PATH`: this function never waits for that WaitGroup (its end must not depend on whoever holds its tokens)
			for _, cl := range x.FC.Of("ghost") {
				if strings.HasPrefix(cl.Text, "nowait ") && strings.TrimSpace(strings.TrimPrefix(cl.Text, "nowait ")) == x.argPath(fr, 0) {
					x.failHard(st, "assert", fmt.Sprintf("nowait:%s#%d", x.argPath(fr, 0), x.site(st, "nowait")), pos, "the contract says this function never waits for "+x.argPath(fr, 0))
				}
			}
		}
		if x.worder() != nil {
			if rv := x.recvOperand(fr); rv != nil {
				cls := x.classOfValue(st, rv, x.argPath(fr, 0))
				x.waitCheck(st, "wgwait:"+x.argPath(fr, 0), []waitCase{{cls, "Wait on " + x.argPath(fr, 0)}}, nil, pos)
			}
		}
		x.interfere(st, "WaitGroup.Wait")
		st.Assume(Eq(Select(st.ghostArr("wg", SInt), r), IntLit(0)))
		{
			// WaitGroup model: with the counter at zero every token that was bound to a subject has been returned
			pend := st.heapGet("G$mark$wgpending", ArrSort(SInt, ArrSort(SInt, SBool)))
			ret := st.heapGet("G$mark$wgreturned", ArrSort(SInt, ArrSort(SInt, SBool)))
			sx := BoundVar("x", SInt)
			st.Assume(Forall([]*Term{sx}, Implies(Select(Select(pend, r), sx), Select(Select(ret, r), sx))))
		}
		x.joinAt(st, fr, r, x.argPath(fr, 0), pos)
		x.joinAllAt(st, fr, r, x.argPath(fr, 0), pos)
		st.Trace = append(st.Trace, "wg.Wait returns")
	case "encoding/json.Marshal":
		return x.jsonMarshal(st, fr, dst, args, pos)
	case "encoding/json.Unmarshal":
		return x.jsonUnmarshal(st, fr, dst, args, pos)
	case "(*sync.Map).LoadOrStore", "(*sync.Map).Load":
		// sync.Map as a ghost table per map object; entries are only ever added (checked by syncMapSweep), so the
		// table grows monotonically under interference and an entry, once present, keeps its value
		x.V.syncMapSweep()
		x.note("ASSUMED model of sync.Map: Load/LoadOrStore are single atomic steps; entries are never removed or overwritten (no other sync.Map method is called in the packages under contract: checked)")
		x.nilCheck(st, args[0], "syncmap-receiver", pos)
		r := x.refOf(args[0])
		hs, vs := ArrSort(SInt, ArrSort(SInt, SBool)), ArrSort(SInt, ArrSort(SInt, SInt))
		has, val := st.heapGet("G$smhas", hs), st.heapGet("G$smval", vs)
		shared := true
		if args[0].FP != nil && st.FreshRefs[args[0].FP.Base.Op] {
			shared = false
		}
		if shared {
			nhas, nval := Fresh("if$G$smhas", hs), Fresh("if$G$smval", vs)
			m, kk := BoundVar("m", SInt), BoundVar("k", SInt)
			st.Assume(Forall([]*Term{m, kk}, Implies(Select(Select(has, m), kk), And(Select(Select(nhas, m), kk), Eq(Select(Select(nval, m), kk), Select(Select(val, m), kk))))))
			has, val = nhas, nval
		}
		// declared value type of this map (type contract: syncmap FIELD TYPE)
		var vt types.Type
		if fp := args[0].FP; fp != nil {
			if tc := x.V.C.Types[typeName(fp.Root)]; tc != nil && tc.SyncMaps[fp.Path[0]] != "" {
				env := &Env{V: x.V, X: x, St: st, Vars: map[string]*Val{}, Pkg: x.V.P.TPkgs[tc.Pkg]}
				vt = x.V.resolveType(env, tc.SyncMaps[fp.Path[0]])
			}
		}
		valueOK := func(t *Term) *Term {
			c := And(Neq(t, IntLit(0)), Eq(dynType(t), typeID(vt)))
			if _, isPtr := vt.Underlying().(*types.Pointer); isPtr {
				c = And(c, Gt(UF("unbox$"+typeName(vt)+"$", SInt, t), IntLit(0)))
			}
			return c
		}
		if vt != nil {
			kk := BoundVar("k", SInt)
			st.Assume(Forall([]*Term{kk}, Implies(Select(Select(has, r), kk), valueOK(Select(Select(val, r), kk)))))
		}
		key := args[1].Term
		present := Select(Select(has, r), key)
		cur := Select(Select(val, r), key)
		if full == "(*sync.Map).Load" {
			st.Heap["G$smhas"], st.Heap["G$smval"] = has, val
			if dst != nil {
				fr.Regs[dst] = &Val{T: dst.Type(), Fields: []*Val{{T: callee.Signature.Results().At(0).Type(), Term: Ite(present, cur, IntLit(0))}, boolVal(present)}}
			}
			return true
		}
		stored := args[2].Term
		if vt != nil {
			k := x.site(st, "syncmap:"+x.argPath(fr, 0))
			x.oblige(st, "inv", fmt.Sprintf("syncmap:value-is-a-non-nil-%s@%s#%d", sanitize(typeName(vt)), x.argPath(fr, 0), k), valueOK(stored), pos, "")
		}
		actual := Ite(present, cur, stored)
		st.Heap["G$smhas"] = Store(has, r, Store(Select(has, r), key, True))
		st.Heap["G$smval"] = Store(val, r, Store(Select(val, r), key, actual))
		if dst != nil {
			fr.Regs[dst] = &Val{T: dst.Type(), Fields: []*Val{{T: callee.Signature.Results().At(0).Type(), Term: actual}, boolVal(present)}}
		}
		return true
	case "context.WithCancel", "context.WithTimeout", "context.WithDeadline":
		// fresh child context; the returned cancel function cancels exactly it (ASSUMED model of package context)
		x.note("ASSUMED model of context." + callee.Name() + ": fresh child context inheriting the parent's values; the returned function cancels that child; a child of a cancelled parent is cancelled")
		parent := args[0]
		x.nilCheck(st, parent, "context-parent", pos)
		c := st.newRef("ctx")
		canc := st.ghostArr("cancelled", SBool)
		inherited := Select(canc, parent.Term)
		if callee.Name() != "WithCancel" {
			// a deadline may pass at any moment: the child is taken to be cancelled or not from the start, unknown
			// which (one unconstrained boolean per context; coarser than "becomes cancelled at some point", and every
			// program point sees both cases)
			x.note("ASSUMED model of context." + callee.Name() + ": whether the deadline has passed is one unconstrained boolean per context")
			inherited = Or(inherited, Fresh("deadline$fired", SBool))
		}
		st.setGhostArr("cancelled", Store(canc, c, inherited))
		k := BoundVar("k", SInt)
		st.Assume(Forall([]*Term{k}, Eq(UF("spec$message.ctxval", SInt, c, k), UF("spec$message.ctxval", SInt, parent.Term, k))))
		st.Assume(Eq(UF("spec$stdlib.ctxparent", SInt, c), parent.Term))
		if len(args) > 1 && args[1].Term != nil && args[1].Term.Sort == SInt {
			st.Assume(Eq(UF("spec$stdlib.ctxtimeout", SInt, c), args[1].Term))
		}
		cf := st.newRef("cancelfn")
		st.CancelFns = copyCancel(st.CancelFns)
		st.CancelFns[cf.Op] = c
		if dst != nil {
			fr.Regs[dst] = &Val{T: dst.Type(), Fields: []*Val{{T: parent.T, Term: c}, {T: callee.Signature.Results().At(1).Type(), Term: cf}}}
		}
		return true
	default:
		return false
	}
	if dst != nil {
		fr.Regs[dst] = &Val{T: dst.Type(), Fields: []*Val{}}
	}
	return true
}

func copyCancel(m map[string]*Term) map[string]*Term {
	n := map[string]*Term{}
	for k, v := range m {
		n[k] = v
	}
	return n
}

// callCancel: a call through a function value that is a known context cancel function.
func (x *Exec) callCancel(st *State, fv *Val) bool {
	if fv.Term == nil || fv.Term.Kind != kConst {
		return false
	}
	c, ok := st.CancelFns[fv.Term.Op]
	if !ok {
		return false
	}
	st.setGhostArr("cancelled", Store(st.ghostArr("cancelled", SBool), c, True))
	st.Trace = append(st.Trace, "cancel()")
	return true
}

func (x *Exec) argPath(fr *Frame, i int) string {
	if x.curDefer != nil {
		// a deferred call being run: name its arguments as written at the defer statement
		if i < len(x.curDefer.Call.Args) {
			return lockPath(x.curDefer.Call.Args[i])
		}
		return ""
	}
	switch c := currentCall(fr).(type) {
	case *ssa.Call:
		if i < len(c.Call.Args) {
			return lockPath(c.Call.Args[i])
		}
	case *ssa.Defer:
		if i < len(c.Call.Args) {
			return lockPath(c.Call.Args[i])
		}
	}
	return ""
}

// lockPath: source path of a *sync.X argument (either &obj.field or the loaded obj.field pointer).
func lockPath(v ssa.Value) string {
	switch a := v.(type) {
	case *ssa.FieldAddr:
		stt := pointee(a.X.Type()).Underlying().(*types.Struct)
		return accessPath(a.X) + "." + stt.Field(a.Field).Name()
	case *ssa.Alloc:
		return a.Comment
	}
	return accessPath(v)
}

// monitorOf finds the monitor a lock value belongs to: (type contract, monitor, object base).
func (x *Exec) monitorOf(st *State, lockv *Val) (*TypeContract, *Monitor, *Term, *types.Named) {
	if lockv.FP != nil && len(lockv.FP.Path) == 1 {
		tc := x.V.C.Types[typeName(lockv.FP.Root)]
		if tc != nil {
			for _, m := range tc.Monitors {
				if m.Lock == lockv.FP.Path[0] {
					return tc, m, lockv.FP.Base, lockv.FP.Root
				}
			}
		}
		return nil, nil, nil, nil
	}
	if lockv.Term != nil {
		// pointer lock loaded from a field: term is select(H$T$f..., base)
		t := lockv.Term
		if t.Kind == kApp && t.Op == "select" {
			fam := familyOf(t.Args[0])
			if strings.HasPrefix(fam, "H$") {
				parts := strings.SplitN(fam[2:], "$", 2)
				if len(parts) == 2 {
					tc := x.V.C.Types[parts[0]]
					if tc != nil {
						for _, m := range tc.Monitors {
							if m.Lock == parts[1] {
								return tc, m, t.Args[1], x.V.namedByName(parts[0])
							}
						}
					}
				}
			}
		}
	}
	return nil, nil, nil, nil
}

// familyOf: heap family name of an array term (strip stores and the @epoch suffix).
func familyOf(t *Term) string {
	for t.Kind == kApp && t.Op == "store" {
		t = t.Args[0]
	}
	if t.Kind == kConst {
		n := strings.Trim(t.Op, "|")
		if i := strings.LastIndex(n, "@"); i >= 0 {
			return n[:i]
		}
		if i := strings.Index(n, "!"); i >= 0 && (strings.HasPrefix(n, "hv$") || strings.HasPrefix(n, "lh$") || strings.HasPrefix(n, "if$")) {
			return n[3:i]
		}
	}
	return ""
}

func (x *Exec) lock(st *State, fr *Frame, lockv *Val, read bool, pos token.Pos) {
	id := x.refOf(lockv).String()
	ap := x.argPath(fr, 0)
	k := x.site(st, "lock:"+ap)
	if _, already := st.Held[id]; already {
		x.failHard(st, "lock", fmt.Sprintf("lock:no-self-deadlock@%s#%d", ap, k), pos, "lock acquired twice on one path")
		st.Done = true
		return
	}
	class := ""
	if x.worder() != nil {
		if rv := x.recvOperand(fr); rv != nil {
			class = x.classOfValue(st, rv, ap)
		}
		x.waitCheck(st, "lock:"+ap, []waitCase{{class, "Lock " + ap}}, nil, pos)
	}
	x.siteAsserts(st, fr, "lock:"+ap, pos)
	x.interfere(st, "Lock "+ap)
	tc, mon, base, root := x.monitorOf(st, lockv)
	h := &Held{ID: id, Base: base, TC: tc, Mon: mon, Read: read, Root: root, Class: class}
	st.Held[id] = h
	if tc != nil {
		env := &Env{V: x.V, X: x, St: st, Vars: map[string]*Val{}, Pkg: x.V.P.TPkgs[tc.Pkg], Epoch: st.Epoch}
		env.Vars[tc.Self] = &Val{T: types.NewPointer(root), Term: base}
		st.Assume(Neq(base, IntLit(0)))
		for _, inv := range tc.Invariants {
			if invMon(inv) != "" && invMon(inv) != mon.Lock {
				continue
			}
			st.Assume(x.V.evalBool(env, inv.E))
		}
		for _, inv := range tc.RestInvs {
			if invMon(inv) != "" && invMon(inv) != mon.Lock {
				continue
			}
			st.Assume(x.V.evalBool(env, inv.E))
		}
		x.V.lockSnap[id] = copyHeap(st.Heap)
		st.LockSnaps = append(st.LockSnaps, lockSnap{id, copyHeap(st.Heap), st.Epoch})
	}
	st.Trace = append(st.Trace, "lock "+ap)
}

// checkHeldInvariants: a function whose contract says it is entered with a lock held assumes the monitor's
// (non-rest) invariants at entry; whoever calls it or hands the lock over must establish them.
func (x *Exec) checkHeldInvariants(st *State, h *Held, site string, pos token.Pos) {
	if h == nil || h.TC == nil || h.Mon == nil || h.Base == nil {
		return
	}
	env := &Env{V: x.V, X: x, St: st, Vars: map[string]*Val{}, Pkg: x.V.P.TPkgs[h.TC.Pkg], Epoch: st.Epoch}
	env.Vars[h.TC.Self] = &Val{T: types.NewPointer(h.Root), Term: h.Base}
	for _, inv := range h.TC.Invariants {
		if invMon(inv) != "" && invMon(inv) != h.Mon.Lock {
			continue
		}
		x.oblige(st, "monitor", fmt.Sprintf("monitor:%s:inv:%s@%s", h.Mon.Lock, inv.Label, site), x.V.evalBool(env, inv.E), pos, inv.Text)
	}
}

// invMon: invariants may be tagged "[mon:LOCK:label]" to bind them to one monitor of the type.
func invMon(c *Clause) string {
	if strings.HasPrefix(c.Label, "mon:") {
		p := strings.SplitN(c.Label, ":", 3)
		if len(p) >= 2 {
			return p[1]
		}
	}
	return ""
}

type lockSnap struct {
	ID    string
	Heap  map[string]*Term
	Epoch int
}

func (x *Exec) unlock(st *State, fr *Frame, lockv *Val, read bool, pos token.Pos) {
	id := x.refOf(lockv).String()
	ap := x.argPath(fr, 0)
	k := x.site(st, "unlock:"+ap)
	h, ok := st.Held[id]
	if !ok {
		if x.V.entryHeld[id] {
			h = nil
		} else {
			x.failHard(st, "lock", fmt.Sprintf("lock:held-at-unlock@%s#%d", ap, k), pos, "unlock of a lock not held on this path")
			return
		}
	}
	x.siteAsserts(st, fr, "unlock:"+ap, pos)
	for _, lid := range st.Lent {
		if lid == id {
			x.failHard(st, "lock", fmt.Sprintf("lock:lent-lock-kept@unlock:%s#%d", ap, k), pos, "unlock of a lock that was lent to a goroutine started by this function")
		}
	}
	if h != nil && h.TC != nil {
		env := &Env{V: x.V, X: x, St: st, Vars: map[string]*Val{}, Pkg: x.V.P.TPkgs[h.TC.Pkg], Epoch: st.Epoch}
		env.Vars[h.TC.Self] = &Val{T: types.NewPointer(h.Root), Term: h.Base}
		for _, inv := range h.TC.Invariants {
			if invMon(inv) != "" && invMon(inv) != h.Mon.Lock {
				continue
			}
			g := x.V.evalBool(env, inv.E)
			x.oblige(st, "monitor", fmt.Sprintf("monitor:%s:inv:%s@unlock#%d", h.Mon.Lock, inv.Label, k), g, pos, inv.Text)
		}
		for _, inv := range h.TC.RestInvs {
			if invMon(inv) != "" && invMon(inv) != h.Mon.Lock {
				continue
			}
			g := x.V.evalBool(env, inv.E)
			x.oblige(st, "monitor", fmt.Sprintf("monitor:%s:inv:%s@unlock#%d", h.Mon.Lock, inv.Label, k), g, pos, inv.Text)
		}
		// guarantee: the change made inside the critical section respects the rely
		for i := len(st.LockSnaps) - 1; i >= 0; i-- {
			if st.LockSnaps[i].ID == id {
				env.OldHeap = st.LockSnaps[i].Heap
				env.OldEpoch = st.LockSnaps[i].Epoch
				for _, rc := range h.TC.Relies {
					g := x.V.evalBool(env, rc.E)
					x.oblige(st, "monitor", fmt.Sprintf("monitor:%s:guarantee:%s@unlock#%d", h.Mon.Lock, rc.Label, k), g, pos, rc.Text)
				}
				break
			}
		}
	}
	delete(st.Held, id)
	st.Trace = append(st.Trace, "unlock "+ap)
}

// guardCheck: the lockset obligation for fields named in a monitor.
func (x *Exec) guardCheck(st *State, fp *FieldPtr, write bool, pos token.Pos) {
	tc := x.V.C.Types[typeName(fp.Root)]
	if tc == nil {
		return
	}
	f := fp.Path[0]
	var mons []*Monitor
	for _, m := range tc.Monitors {
		if m.Guards[f] {
			mons = append(mons, m)
		}
	}
	if len(mons) == 0 || st.FreshRefs[fp.Base.Op] {
		return // unguarded, or object not yet shared
	}
	kind := "read"
	if write {
		kind = "write"
	}
	// mode in which monitor m of the object is held: 0 not, 1 read, 2 write
	mode := func(m *Monitor) int {
		md := 0
		for _, h := range st.Held {
			if h.Borrowed {
				continue
			}
			if h.Mon == m && h.Base != nil && same(h.Base, fp.Base) {
				if h.Read && md < 1 {
					md = 1
				}
				if !h.Read {
					md = 2
				}
			}
		}
		if md == 0 && x.V.entryHolds(tc, m, fp.Base) {
			md = 2
		}
		return md
	}
	if len(mons) > 1 && !write {
		// a field in the lockset of several monitors: writers hold all of them, so a reader needs any one of them in a
		// mode that excludes the writers (write mode, or read mode when writers take that lock in write mode)
		if x.quiescentField(st, fp) {
			return
		}
		ok := false
		var names []string
		for _, m := range mons {
			names = append(names, m.Lock)
			if md := mode(m); md == 2 || (md == 1 && !m.RWrite[f]) {
				ok = true
			}
		}
		k := x.site(st, "guard:"+f+":"+kind)
		name := fmt.Sprintf("guarded:%s:read-under-%s#%d", f, strings.Join(names, "-or-"), k)
		if ok {
			x.oblige(st, "guarded", name, True, pos, "")
		} else {
			x.failHard(st, "guarded", name, pos, fmt.Sprintf("read of %s.%s holding none of %s in an excluding mode", tc.Name, f, strings.Join(names, ", ")))
		}
		return
	}
	for _, m := range mons {
		if !write && m.WriteOnly[f] {
			continue
		}
		if !write && x.quiescentField(st, fp) {
			continue
		}
		md := mode(m)
		ok := md == 2 || (md == 1 && (!write || m.RWrite[f]))
		k := x.site(st, "guard:"+f+":"+kind)
		name := fmt.Sprintf("guarded:%s:%s-under-%s#%d", f, kind, m.Lock, k)
		if ok {
			x.oblige(st, "guarded", name, True, pos, "")
		} else {
			x.failHard(st, "guarded", name, pos, fmt.Sprintf("%s of %s.%s without holding %s", kind, tc.Name, f, m.Lock))
		}
	}
	if write && len(mons) > 1 {
		// concurrent writers must be serialised by at least one lock held in write mode
		excl := false
		for _, m := range mons {
			if mode(m) == 2 {
				excl = true
			}
		}
		k := x.site(st, "guard:"+f+":write-excl")
		name := fmt.Sprintf("guarded:%s:write-serialised#%d", f, k)
		if excl {
			x.oblige(st, "guarded", name, True, pos, "")
		} else {
			x.failHard(st, "guarded", name, pos, fmt.Sprintf("write of %s.%s holding no lock of its lockset in write mode", tc.Name, f))
		}
	}
}

// quiescentField: the function contract says (ghost quiescent X.f [why]) that no other goroutine writes X.f while
// it runs; reads of it are then not lockset-checked and its value is kept across interference (ASSUMED, recorded).
func (x *Exec) quiescentField(st *State, fp *FieldPtr) bool {
	for _, q := range x.quiescent(st) {
		if q.Field == fp.Path[0] && same(q.Base, fp.Base) {
			return true
		}
	}
	return false
}

type quiescentDecl struct {
	Base  *Term
	Root  *types.Named
	Field string
}

func (x *Exec) quiescent(st *State) []quiescentDecl {
	var out []quiescentDecl
	if x.FC == nil || len(st.Frames) == 0 {
		return nil
	}
	for _, cl := range x.FC.Of("ghost") {
		if !strings.HasPrefix(cl.Text, "quiescent ") {
			continue
		}
		e, err := ParseExpr(strings.TrimPrefix(cl.Text, "quiescent "))
		if err != nil || e.Kind != "sel" {
			unsupportedf("ghost quiescent expects X.field")
		}
		env := x.envAt(st, st.Frames[0])
		for n, p := range x.Entry.Params {
			env.Vars[n] = p
		}
		ov := x.V.eval(env, e.Args[0])
		ns := namedStruct(pointee(ov.T))
		if ns == nil || ov.Term == nil {
			continue
		}
		x.note("ASSUMED: no other goroutine writes " + cl.Text[10:] + " while " + x.V.P.FuncKey(x.Fn) + " runs (" + cl.Label + ")")
		out = append(out, quiescentDecl{ov.Term, ns, e.Op})
	}
	return out
}

// ---- interference ----

func (x *Exec) interfere(st *State, why string) {
	if x.V.noInterference {
		return
	}
	before := copyHeap(st.Heap)
	beforeEpoch := st.Epoch
	changed := false
	quiescent := x.quiescent(st)
	var relyTypes []string
	var tcs []string
	for k := range x.V.C.Types {
		tcs = append(tcs, k)
	}
	sort.Strings(tcs)
	for _, tk := range tcs {
		tc := x.V.C.Types[tk]
		if len(tc.Monitors) == 0 {
			continue
		}
		root := x.V.namedByName(tk)
		if root == nil {
			continue
		}
		for _, m := range tc.Monitors {
			var fields []string
			for f := range m.Guards {
				fields = append(fields, f)
			}
			sort.Strings(fields)
			var keep0, keepW []*Term // objects whose monitor m is held (any mode / write mode)
			for _, h := range st.Held {
				if h.Borrowed {
					continue
				}
				if h.Mon == m && h.Base != nil {
					keep0 = append(keep0, h.Base)
					if !h.Read {
						keepW = append(keepW, h.Base)
					}
				}
			}
			for _, b := range x.V.entryBases(tc, m) {
				keep0 = append(keep0, b)
				keepW = append(keepW, b)
			}
			for _, f := range fields {
				if m.CloseOnly[f] {
					continue // the field itself is never reassigned (stores to it on a shared object are rejected)
				}
				// a field is stable at an object while a lock of its lockset is held in a mode that excludes its writers
				keep := keep0
				if m.RWrite[f] {
					keep = keepW
				}
				keep = append([]*Term{}, keep...)
				for _, m2 := range tc.Monitors {
					if m2 == m || !m2.Guards[f] {
						continue
					}
					for _, h := range st.Held {
						if h.Borrowed {
							continue
						}
						if h.Mon == m2 && h.Base != nil && (!h.Read || !m2.RWrite[f]) {
							keep = append(keep, h.Base)
						}
					}
					keep = append(keep, x.V.entryBases(tc, m2)...)
				}
				for _, q := range quiescent {
					if q.Field == f && typeName(q.Root) == tk {
						keep = append(keep, q.Base)
					}
				}
				for _, fr := range st.FreshList {
					keep = append(keep, fr)
				}
				if strings.HasPrefix(f, "#") {
					// ghost field guarded by the monitor
					key := heapKeyField(root, f)
					gsrt, _ := x.V.ghostFieldSort(root, strings.TrimPrefix(f, "#"))
					cur := st.heapGet(key, ArrSort(SInt, gsrt))
					nw := Fresh("if$"+key, ArrSort(SInt, gsrt))
					for _, b := range keep {
						nw = Store(nw, b, Select(cur, b))
					}
					st.Heap[key] = nw
					changed = true
					continue
				}
				ft := fieldTypeAt(root, []string{f})
				if mt, isMap := ft.Underlying().(*types.Map); isMap {
					// the monitor also owns the contents of the map stored in the field
					regMapSorts(mt)
					hk, lk, vp := mapKeys(mt)
					fams := []string{hk, lk}
					var mls []leafInfo
					leaves(mt.Elem(), "", &mls)
					for _, ml := range mls {
						fams = append(fams, vp+"$"+ml.Path)
					}
					var keepMaps []*Term
					for _, b := range keep {
						keepMaps = append(keepMaps, st.loadPath(root, b, f, ft).Term)
					}
					for _, fam := range fams {
						cur := st.heapGet(fam, heapSorts[fam])
						nw := Fresh("if$"+fam, heapSorts[fam])
						for _, km := range keepMaps {
							nw = Store(nw, km, Select(cur, km))
						}
						st.Heap[fam] = nw
						changed = true
					}
				}
				var ls []leafInfo
				leaves(ft, f, &ls)
				for _, l := range ls {
					key := heapKeyField(root, l.Path)
					cur := st.heapGet(key, ArrSort(SInt, l.Sort))
					nw := Fresh("if$"+key, ArrSort(SInt, l.Sort))
					for _, b := range keep {
						nw = Store(nw, b, Select(cur, b))
					}
					st.Heap[key] = nw
					changed = true
				}
			}
		}
		if changed && len(tc.Relies) > 0 {
			relyTypes = append(relyTypes, tk)
		}
	}
	// the relies are stated between the state before and the state after the whole interference step (they may
	// mention channel and wait-group ghost state): assumed at the end
	defer func() {
		for _, tk := range relyTypes {
			tc := x.V.C.Types[tk]
			root := x.V.namedByName(tk)
			r := BoundVar("r", SInt)
			env := &Env{V: x.V, X: x, St: st, Vars: map[string]*Val{}, Pkg: x.V.P.TPkgs[tc.Pkg], Epoch: st.Epoch, OldHeap: before, OldEpoch: beforeEpoch}
			env.Vars[tc.Self] = &Val{T: types.NewPointer(root), Term: r}
			for _, rc := range tc.Relies {
				st.Assume(Forall([]*Term{r}, x.V.evalBool(env, rc.E)))
			}
		}
	}()
	// channels: closed is monotone; channels owned by held monitors and fresh channels are untouched
	cl := st.ghostArr("closed", SBool)
	ncl := Fresh("if$closed", ArrSort(SInt, SBool))
	c := BoundVar("c", SInt)
	st.Assume(Forall([]*Term{c}, Implies(Select(cl, c), Select(ncl, c))))
	patched := ncl
	for _, own := range x.ownedChans(st, before) {
		patched = Store(patched, own, Select(cl, own))
	}
	st.setGhostArr("closed", patched)
	// channels stored in fields declared `ownschan` are closed only under their type's protocol
	for _, tk := range tcs {
		tc := x.V.C.Types[tk]
		root := x.V.namedByName(tk)
		if root == nil {
			continue
		}
		for _, f := range tc.OwnsChan {
			// a channel field declared to be closed only under locks of a class (ownschan f(Type.lock)): while this
			// thread holds a lock of that class nobody else closes these channels (every close site proves it holds one)
			cls := tc.ChanUnder[f]
			if cls == "" || !x.holdsLockClass(st, cls, false) {
				continue
			}
			x.V.sweep()
			// every close site of the field inside the module must be a function under contract (it then carries the
			// close-under-lock obligation); closes by code outside the module are excluded by the ownschan assumption
			for _, fk := range x.V.closeFields[tk+"."+f] {
				if !x.V.underContract(fk) {
					unsupportedf("ownschan %s.%s(%s): closed in %s, which is not under contract", tk, f, cls, fk)
				}
			}
			x.note("ASSUMED: an object whose " + f + " channel is closed under locks of class " + cls + " is protected by a single lock of that class (the one held)")
			key := heapKeyField(root, f)
			fh := st.heapGet(key, ArrSort(SInt, SInt))
			o := BoundVar("o", SInt)
			st.Assume(Forall([]*Term{o}, Eq(Select(patched, Select(fh, o)), Select(cl, Select(fh, o)))))
		}
	}
	// buffered lengths may change arbitrarily (within capacity)
	ln := st.ghostArr("clen", SInt)
	nln := Fresh("if$clen", ArrSort(SInt, SInt))
	for _, fr := range st.FreshList {
		nln = Store(nln, fr, Select(ln, fr))
	}
	st.setGhostArr("clen", nln)
	// wait groups: counters of other threads' making; thread-local (fresh) ones keep their value
	if _, ok := st.Heap["G$wg"]; ok {
		wg := st.ghostArr("wg", SInt)
		nwg := Fresh("if$wg", ArrSort(SInt, SInt))
		w := BoundVar("w", SInt)
		mine := st.ghostArr("wgmine", SInt)
		st.Assume(Forall([]*Term{w}, And(Ge(Select(nwg, w), IntLit(0)), Ge(Select(nwg, w), Select(mine, w)))))
		for _, fr := range st.FreshList {
			nwg = Store(nwg, fr, Select(wg, fr))
		}
		for _, s := range x.V.stableWg(st, x) {
			nwg = Store(nwg, s, Select(wg, s))
		}
		// WaitGroups of fields whose adds need a lock of a class this thread holds (or borrows) do not grow
		for _, tk := range tcs {
			tc := x.V.C.Types[tk]
			root := x.V.namedByName(tk)
			if root == nil || len(tc.WgAddsUnder) == 0 {
				continue
			}
			var fs []string
			for f := range tc.WgAddsUnder {
				fs = append(fs, f)
			}
			sort.Strings(fs)
			for _, f := range fs {
				if !x.holdsLockClass(st, tc.WgAddsUnder[f], false) {
					continue
				}
				x.V.wgAddSweep()
				x.note("ASSUMED: an object whose " + f + " WaitGroup is added to under locks of class " + tc.WgAddsUnder[f] + " is protected by a single lock of that class (the one held or borrowed)")
				o := BoundVar("o", SInt)
				var ref *Term
				ft := fieldTypeAt(root, []string{f})
				if _, isPtr := ft.Underlying().(*types.Pointer); isPtr {
					ref = Select(st.heapGet(heapKeyField(root, f), ArrSort(SInt, SInt)), o)
				} else {
					ref = fpAddr(&FieldPtr{Base: o, Root: root, Path: []string{f}, T: ft})
				}
				st.Assume(Forall([]*Term{o}, Le(Select(nwg, ref), Select(wg, ref))))
			}
		}
		st.setGhostArr("wg", nwg)
	}
	// fields this thread is the only writer of (ghost sole-writer X.f): their value at X is kept
	if x.FC != nil && len(st.Frames) > 0 {
		for _, cl := range x.FC.Of("ghost") {
			if !strings.HasPrefix(cl.Text, "sole-writer ") {
				continue
			}
			e, err := ParseExpr(strings.TrimPrefix(cl.Text, "sole-writer "))
			if err != nil || e.Kind != "sel" {
				unsupportedf("ghost sole-writer expects X.field")
			}
			x.note("ASSUMED: only this goroutine writes " + cl.Text[12:])
			env := x.envAt(st, st.Frames[0])
			for n, p := range x.Entry.Params {
				env.Vars[n] = p
			}
			ov := x.V.eval(env, e.Args[0])
			ns := namedStruct(pointee(ov.T))
			if ns == nil || ov.Term == nil {
				continue
			}
			ft := fieldTypeAt(ns, []string{e.Op})
			var ls []leafInfo
			leaves(ft, e.Op, &ls)
			for _, l := range ls {
				key := heapKeyField(ns, l.Path)
				if ob, ok := before[key]; ok {
					st.Heap[key] = Store(st.heapGet(key, ArrSort(SInt, l.Sort)), ov.Term, Select(ob, ov.Term))
				}
			}
		}
	}
	// ghost marks are monotone: other goroutines may add pairs, never remove one
	for _, n := range st.heapNames() {
		if strings.HasPrefix(n, "G$mark$") {
			srt := ArrSort(SInt, ArrSort(SInt, SBool))
			om := st.Heap[n]
			nm := Fresh("if$"+n, srt)
			a, b := BoundVar("a", SInt), BoundVar("b", SInt)
			st.Assume(Forall([]*Term{a, b}, Implies(Select(Select(om, a), b), Select(Select(nm, a), b))))
			st.Heap[n] = nm
		}
	}
	x.havocEscaped(st)
	st.Trace = append(st.Trace, "interference@"+why)
	x.assumeStrong(st)
}

// syncFieldKey: "pkg.Type.field" when the value is (a load of) a struct field.
func syncFieldKey(v ssa.Value) string {
	if u, ok := v.(*ssa.UnOp); ok && u.Op == token.MUL {
		v = u.X
	}
	if fa, ok := v.(*ssa.FieldAddr); ok {
		if ns := namedStruct(pointee(fa.X.Type())); ns != nil {
			return typeName(ns) + "." + ns.Underlying().(*types.Struct).Field(fa.Field).Name()
		}
	}
	return ""
}

// wgAddRule: WaitGroups of a field declared `wgadds F under L` are only added to under a lock of class L.
func (x *Exec) wgAddRule(st *State, fr *Frame, pos token.Pos) {
	var recv ssa.Value
	switch c := currentCall(fr).(type) {
	case *ssa.Call:
		if len(c.Call.Args) > 0 {
			recv = c.Call.Args[0]
		}
	}
	if recv == nil {
		return
	}
	key := syncFieldKey(recv)
	if key == "" {
		return
	}
	i := strings.LastIndex(key, ".")
	tc := x.V.C.Types[key[:i]]
	if tc == nil || tc.WgAddsUnder[key[i+1:]] == "" {
		return
	}
	cls := tc.WgAddsUnder[key[i+1:]]
	k := x.site(st, "wgaddunder:"+key)
	name := fmt.Sprintf("guarded:add-to-%s-under-%s#%d", key[i+1:], cls, k)
	if x.holdsLockClass(st, cls, true) && len(st.Lent) == 0 {
		x.oblige(st, "guarded", name, True, pos, "")
	} else {
		x.failHard(st, "guarded", name, pos, "Add on "+key+" without holding a lock of class "+cls+" (or while the lock is lent to a goroutine)")
	}
}

// wgAddSweep: the add-under-lock rule is only as good as its coverage: every Add call site of the module must have a
// receiver that is a struct field or a local variable (an Add through a parameter could reach a ruled WaitGroup unseen).
func (v *Verifier) wgAddSweep() {
	if v.wgSwept {
		return
	}
	v.wgSwept = true
	for fn := range v.P.All {
		for _, b := range fn.Blocks {
			for _, in := range b.Instrs {
				c, ok := in.(*ssa.Call)
				if !ok {
					continue
				}
				sc := c.Call.StaticCallee()
				if sc == nil || sc.String() != "(*sync.WaitGroup).Add" || len(c.Call.Args) == 0 {
					continue
				}
				a := c.Call.Args[0]
				if syncFieldKey(a) != "" {
					continue
				}
				switch t := a.(type) {
				case *ssa.Alloc, *ssa.FreeVar:
					continue
				case *ssa.UnOp:
					if _, ok := t.X.(*ssa.Alloc); ok {
						continue
					}
					if _, ok := t.X.(*ssa.FreeVar); ok {
						continue
					}
				}
				unsupportedf("wgadds rule: %s adds to a WaitGroup reached through %T (not a field or a local)", fn, a)
			}
		}
	}
}

// checkWgGuarantee: a change of a WaitGroup that is a field of a type with relies must respect them (relies may
// speak about wg(...), e.g. "no new tokens once closed"): checked as a two-state obligation around the operation.
func (x *Exec) checkWgGuarantee(st *State, wgv *Val, before map[string]*Term, what string, pos token.Pos) {
	if wgv.FP == nil || st.FreshRefs[wgv.FP.Base.Op] {
		return
	}
	tc := x.V.C.Types[typeName(wgv.FP.Root)]
	if tc == nil || len(tc.Relies) == 0 {
		return
	}
	uses := false
	for _, rc := range tc.Relies {
		if strings.Contains(rc.Text, "wg(") {
			uses = true
		}
	}
	if !uses {
		return
	}
	env := &Env{V: x.V, X: x, St: st, Vars: map[string]*Val{}, Pkg: x.V.P.TPkgs[tc.Pkg], Epoch: st.Epoch, OldHeap: before, OldEpoch: st.Epoch}
	env.Vars[tc.Self] = &Val{T: types.NewPointer(wgv.FP.Root), Term: wgv.FP.Base}
	k := x.site(st, "wgguarantee:"+what)
	for _, rc := range tc.Relies {
		if !strings.Contains(rc.Text, "wg(") {
			continue
		}
		x.oblige(st, "monitor", fmt.Sprintf("monitor:guarantee:%s@wg%s:%s#%d", rc.Label, what, wgv.FP.Path[0], k), x.V.evalBool(env, rc.E), pos, rc.Text)
	}
}

// ---- facts handed from goroutines to the one that joins them through a WaitGroup ----

// givesAt: `gives @SITE: FACT` in the contract of a goroutine: at the site (its WaitGroup.Done) FACT holds, and it
// keeps holding whatever other goroutines do afterwards (stability: assumed in a copy of the state with nothing
// held and nothing thread-local, one interference step applied, proved again).
func (x *Exec) givesAt(st *State, fr *Frame, site string, pos token.Pos) {
	if x.FC == nil || len(st.Frames) == 0 {
		return
	}
	for _, cl := range x.FC.Of("gives") {
		if cl.Site != site {
			continue
		}
		env := x.envAt(st, st.Frames[0])
		for n, p := range x.Entry.Params {
			env.Vars[n] = p
		}
		g := x.V.evalBool(env, cl.E)
		k := x.site(st, "gives:"+site)
		x.oblige(st, "assert", fmt.Sprintf("gives:%s@%s#%d", cl.Label, site, k), g, pos, cl.Text)
		s2 := st.Clone()
		s2.Assume(g)
		s2.Held = map[string]*Held{}
		s2.FreshRefs = map[string]bool{}
		s2.FreshList = nil
		s2.Owned = nil
		saved := x.V.entryHeldList
		savedHeld := x.V.entryHeld
		x.V.entryHeldList, x.V.entryHeld = nil, map[string]bool{}
		x.interfere(s2, "stability of a handed-over fact")
		x.V.entryHeldList, x.V.entryHeld = saved, savedHeld
		env2 := x.envAt(s2, s2.Frames[0])
		for n, p := range x.Entry.Params {
			env2.Vars[n] = p
		}
		x.oblige(s2, "assert", fmt.Sprintf("gives-stable:%s@%s#%d", cl.Label, site, k), x.V.evalBool(env2, cl.E), pos, cl.Text)
	}
}

// joinAt: `ghost joins W: F` in the contract of the function that waits: W is a WaitGroup of its own making, every
// token it added went to a goroutine running F (which returns it at its `gives @wgdone` site), so after W.Wait() the
// facts F gives hold for every goroutine F this function started.
func (x *Exec) joinAt(st *State, fr *Frame, wref *Term, ap string, pos token.Pos) {
	if x.FC == nil || len(st.Frames) != 1 {
		return
	}
	for _, cl := range x.FC.Of("ghost") {
		if !strings.HasPrefix(cl.Text, "joins "+ap+":") {
			continue
		}
		fname := strings.TrimSpace(strings.TrimPrefix(cl.Text, "joins "+ap+":"))
		fn := x.V.P.Funcs[x.Fn.Pkg.Pkg.Name()+"."+fname]
		if fn == nil {
			unsupportedf("ghost joins: unknown function %s", fname)
		}
		ffc := x.V.C.Funcs[x.V.P.FuncKey(fn)]
		if ffc == nil {
			unsupportedf("ghost joins: %s has no contract", fname)
		}
		k := x.site(st, "join:"+ap)
		// F is a function literal of this function that captures this very variable and takes its token from it, and
		// the variable is assigned once: so the tokens F goroutines return are tokens of this WaitGroup
		okStatic := fn.Parent() == x.Fn
		hasFV := false
		for _, fv := range fn.FreeVars {
			if fv.Name() == ap {
				hasFV = true
			}
		}
		consumes := false
		for _, oc := range ffc.Of("ghost") {
			if oc.Text == "consumes-wg "+ap {
				consumes = true
			}
		}
		stores := 0
		for _, b := range x.Fn.Blocks {
			for _, in := range b.Instrs {
				if stI, ok := in.(*ssa.Store); ok {
					if al, ok := stI.Addr.(*ssa.Alloc); ok && al.Comment == ap {
						stores++
					}
				}
			}
		}
		if !okStatic || !hasFV || !consumes || stores > 1 {
			unsupportedf("ghost joins %s: %s must be a function literal of this function that captures %s (assigned once) and declares `ghost consumes-wg %s`", ap, fname, ap, ap)
		}
		// the WaitGroup is of this function's own making (nobody else adds to it) ...
		if st.FreshTypes[wref.Op] == nil {
			x.failHard(st, "assert", fmt.Sprintf("join:own-waitgroup@wgwait:%s#%d", ap, k), pos, "ghost joins needs a WaitGroup allocated in this function")
			continue
		}
		// ... this thread holds none of its tokens any more ...
		x.oblige(st, "assert", fmt.Sprintf("join:no-token-kept@wgwait:%s#%d", ap, k), Eq(Select(st.ghostArr("wgmine", SInt), wref), IntLit(0)), pos, cl.Text)
		// ... and tokens are handed over only to goroutines running F (checked over the go statements of this function)
		for _, b := range x.Fn.Blocks {
			for _, in := range b.Instrs {
				g, ok := in.(*ssa.Go)
				if !ok {
					continue
				}
				sc := g.Call.StaticCallee()
				if sc == nil || sc == fn {
					continue
				}
				if ofc := x.V.C.Funcs[x.V.P.FuncKey(sc)]; ofc != nil {
					for _, oc := range ofc.Of("ghost") {
						if strings.HasPrefix(oc.Text, "consumes-wg ") {
							unsupportedf("ghost joins %s: %s also takes WaitGroup tokens; list it in a joins clause of its own WaitGroup or not at all", ap, sc)
						}
					}
				}
			}
		}
		n0 := x.Entry.OldHeap["G$spawned$"+fname]
		if n0 == nil {
			n0 = Const("G$spawned$"+fname+"@0", SInt)
		}
		n1 := st.ghostInt("spawned$" + fname)
		kv := BoundVar("k", SInt)
		env := &Env{V: x.V, X: x, St: st, Vars: map[string]*Val{}, Pkg: fn.Pkg.Pkg, Epoch: st.Epoch}
		for i, p := range fn.Params {
			if shapeOf(p.Type()) == shLeaf {
				fam := fmt.Sprintf("G$spawnarg$%s$%d", fname, i)
				env.Vars[p.Name()] = &Val{T: p.Type(), Term: Select(st.heapGet(fam, ArrSort(SInt, leafSort(p.Type()))), kv)}
			}
		}
		for _, fv := range fn.FreeVars {
			ft := pointee(fv.Type())
			if ft != nil && shapeOf(ft) == shLeaf {
				fam := fmt.Sprintf("G$spawnfv$%s$%s", fname, fv.Name())
				env.Vars[fv.Name()] = &Val{T: ft, Term: Select(st.heapGet(fam, ArrSort(SInt, leafSort(ft))), kv)}
			}
		}
		for _, gc := range ffc.Of("gives") {
			if !strings.HasPrefix(gc.Site, "wgdone:") {
				continue
			}
			st.Assume(Forall([]*Term{kv}, Implies(And(Le(n0, kv), Lt(kv, n1)), x.V.evalBool(env, gc.E))))
			x.note("join rule: after " + ap + ".Wait() the fact `" + gc.Text + "` given by every goroutine " + fname + " started here holds (it was proved stable at their WaitGroup.Done)")
		}
	}
}

// splitConsumes: "consumes-wg W as SUBJ" -> (W, SUBJ).
func splitConsumes(text string) (string, string) {
	t := strings.TrimPrefix(text, "consumes-wg ")
	if i := strings.Index(t, " as "); i >= 0 {
		return strings.TrimSpace(t[:i]), strings.TrimSpace(t[i+4:])
	}
	return strings.TrimSpace(t), ""
}

func (x *Exec) setMark(st *State, name string, a, b *Term) {
	fam := "G$mark$" + name
	m := st.heapGet(fam, ArrSort(SInt, ArrSort(SInt, SBool)))
	st.Heap[fam] = Store(m, a, Store(Select(m, a), b, True))
}

// joinAllAt: `ghost joins-all W: F` - W is a WaitGroup whose tokens are bound to subjects and returned only by
// goroutines running F (`ghost consumes-wg W as SUBJ`, checked over all contracts); F proves a stable fact about its
// subject at its Done (`gives @wgdone`); so for every subject whose token has been returned that fact holds, and by the
// WaitGroup model (assumed at Wait) that is every subject a token was ever bound to.
func (x *Exec) joinAllAt(st *State, fr *Frame, wref *Term, ap string, pos token.Pos) {
	if x.FC == nil {
		return
	}
	for _, cl := range x.FC.Of("ghost") {
		if !strings.HasPrefix(cl.Text, "joins-all "+ap+":") {
			continue
		}
		fname := strings.TrimSpace(strings.TrimPrefix(cl.Text, "joins-all "+ap+":"))
		fn := x.V.P.Funcs[x.Fn.Pkg.Pkg.Name()+"."+fname]
		if fn == nil {
			unsupportedf("ghost joins-all: unknown function %s", fname)
		}
		ffc := x.V.C.Funcs[x.V.P.FuncKey(fn)]
		if ffc == nil {
			unsupportedf("ghost joins-all: %s has no contract", fname)
		}
		field := ap
		if i := strings.LastIndex(ap, "."); i >= 0 {
			field = ap[i+1:]
		}
		subjName := ""
		// every contract that binds tokens of a WaitGroup field of this name to subjects must be F's
		for key, ofc := range x.V.C.Funcs {
			for _, oc := range ofc.Of("ghost") {
				if !strings.HasPrefix(oc.Text, "consumes-wg ") {
					continue
				}
				w, sj := splitConsumes(oc.Text)
				if sj == "" {
					continue
				}
				of := w
				if i := strings.LastIndex(w, "."); i >= 0 {
					of = w[i+1:]
				}
				if of != field {
					continue
				}
				if key != x.V.P.FuncKey(fn) {
					unsupportedf("ghost joins-all %s: tokens of a WaitGroup field %s are also returned by %s", ap, field, key)
				}
				subjName = sj
			}
		}
		if subjName == "" {
			unsupportedf("ghost joins-all %s: %s does not declare `ghost consumes-wg ... as SUBJECT`", ap, fname)
		}
		var subjType types.Type
		for _, p := range fn.Params {
			if p.Name() == subjName {
				subjType = p.Type()
			}
		}
		if subjType == nil {
			unsupportedf("ghost joins-all: the subject %s must be a parameter of %s", subjName, fname)
		}
		ret := st.heapGet("G$mark$wgreturned", ArrSort(SInt, ArrSort(SInt, SBool)))
		sx := BoundVar("x", SInt)
		env := &Env{V: x.V, X: x, St: st, Vars: map[string]*Val{subjName: {T: subjType, Term: sx}}, Pkg: fn.Pkg.Pkg, Epoch: st.Epoch}
		for _, gc := range ffc.Of("gives") {
			if !strings.HasPrefix(gc.Site, "wgdone:") {
				continue
			}
			st.Assume(Forall([]*Term{sx}, Implies(Select(Select(ret, wref), sx), x.V.evalBool(env, gc.E))))
			x.note("join rule (all): for every subject whose token of " + ap + " has been returned, the fact `" + gc.Text + "` given by " + fname + " holds (proved stable at its WaitGroup.Done); at Wait every bound token has been returned (WaitGroup model)")
		}
	}
}

// holdsLockClass: the thread holds a lock that is monitor "pkg.Type.lockfield" of some object (in write mode if asked).
func (x *Exec) holdsLockClass(st *State, cls string, write bool) bool {
	for _, h := range st.Held {
		if h.Borrowed && write {
			continue
		}
		if h.TC != nil && h.Mon != nil && h.TC.Pkg+"."+h.TC.Name+"."+h.Mon.Lock == cls && (!write || !h.Read) {
			return true
		}
	}
	for _, h := range x.V.entryHeldList {
		if h.TC != nil && h.Mon != nil && h.TC.Pkg+"."+h.TC.Name+"."+h.Mon.Lock == cls {
			return true
		}
	}
	return false
}

// ownedChans: channels stored in chan-typed guarded fields of objects whose monitor is held, plus fresh channels.
func (x *Exec) ownedChans(st *State, heap map[string]*Term) []*Term {
	var out []*Term
	hs := &State{Heap: heap, Epoch: st.Epoch, FreshRefs: map[string]bool{}}
	var ids []string
	for id := range st.Held {
		ids = append(ids, id)
	}
	sort.Strings(ids)
	for _, id := range ids {
		h := st.Held[id]
		if h.Mon == nil || h.Root == nil || h.Borrowed {
			continue
		}
		var fs []string
		for f := range h.Mon.Guards {
			fs = append(fs, f)
		}
		sort.Strings(fs)
		for _, f := range fs {
			if strings.HasPrefix(f, "#") {
				continue
			}
			ft := fieldTypeAt(h.Root, []string{f})
			if _, ok := ft.Underlying().(*types.Chan); ok {
				out = append(out, hs.loadPath(h.Root, h.Base, f, ft).Term)
			}
		}
	}
	out = append(out, st.FreshList...)
	out = append(out, st.Owned...)
	return out
}

// ---- channels ----

// chanKind recognises channels produced by calls whose behaviour is assumed: context Done channels
// (close-only; closed exactly when the context is cancelled) and timer channels (one value, never closed).
func chanKind(v ssa.Value) string {
	if c, ok := v.(*ssa.Call); ok {
		if c.Call.IsInvoke() && c.Call.Method.Name() == "Done" && typeName(c.Call.Value.Type()) == "context.Context" {
			return "ctxdone"
		}
		if sc := c.Call.StaticCallee(); sc != nil && sc.String() == "time.After" {
			return "timer"
		}
	}
	return ""
}

func (x *Exec) recv(st *State, fr *Frame, i *ssa.UnOp, ch *Val) {
	ap := accessPath(i.X)
	if k := chanKind(i.X); k != "" {
		ap = k
	}
	if ap == "" {
		ap = "chan"
	}
	x.siteAsserts(st, fr, "recv:"+ap, i.Pos())
	if x.worder() != nil {
		x.waitCheck(st, "recv:"+ap, []waitCase{{x.classOfValue(st, i.X, ap), "receive from " + ap}}, nil, i.Pos())
	}
	x.interfere(st, "recv "+ap)
	st.Assume(Neq(ch.Term, IntLit(0))) // a nil channel blocks forever
	et := i.X.Type().Underlying().(*types.Chan).Elem()
	noSend := x.V.noSendChan(x, ap) || ap == "ctxdone"
	if ap == "ctxdone" || ap == "timer" {
		x.note("ASSUMED: ctx.Done() channels are close-only and closed exactly when the context ends; time.After channels deliver one value and are never closed")
	}
	mkRes := func(s *State, v *Val, ok *Term) {
		f := s.Top()
		if i.CommaOk {
			f.Regs[i] = &Val{T: i.Type(), Fields: []*Val{v, {T: types.Typ[types.Bool], Term: ok}}}
		} else {
			f.Regs[i] = v
		}
	}
	if !noSend {
		vs := x.fork(st)
		vs.Assume(Not(vs.closeOnly(ch.Term))) // a value arrives only on a channel somebody sends on
		v := freshVal(et, "recv$"+sanitize(ap))
		vs.assumeValAllocated(v)
		if x.recvNonNil(ap) && v.Term != nil {
			vs.Assume(Neq(v.Term, IntLit(0)))
		}
		vs.Trace = append(vs.Trace, "recv "+ap+": value")
		x.logRecv(vs, ap, v)
		mkRes(vs, v, True)
	}
	if x.neverClosed(ap) || ap == "timer" {
		st.Done = true
		st.ExitKind = "blocked"
		return
	}
	st.Assume(st.closed(ch.Term))
	if ap == "ctxdone" {
		if call, ok := i.X.(*ssa.Call); ok {
			if cv := x.val(st, fr, call.Call.Value); cv != nil && cv.Term != nil {
				st.Assume(Select(st.ghostArr("cancelled", SBool), cv.Term))
			}
		}
	}
	st.Trace = append(st.Trace, "recv "+ap+": closed")
	mkRes(st, zeroVal(et), False)
}

func (x *Exec) neverClosed(ap string) bool {
	if x.V.neverClosedField(x, ap) {
		return true
	}
	if x.FC == nil {
		return false
	}
	for _, cl := range x.FC.Of("ghost") {
		if cl.Text == "neverclosed "+ap {
			x.note("ASSUMED: channel " + ap + " is never closed")
			return true
		}
	}
	return false
}

func (x *Exec) logRecv(st *State, ap string, v *Val) {
	n := st.ghostInt("recvs$" + ap)
	var ts []*Term
	flatten(v, &ts)
	if len(ts) == 1 {
		arr := st.heapGet("G$recv$"+ap, ArrSort(SInt, ts[0].Sort))
		st.Heap["G$recv$"+ap] = Store(arr, n, ts[0])
	}
	st.setGhost("recvs$"+ap, Add(n, IntLit(1)))
}

func (x *Exec) send(st *State, fr *Frame, i *ssa.Send) {
	ch := x.val(st, fr, i.Chan)
	v := x.val(st, fr, i.X)
	ap := accessPath(i.Chan)
	if ap == "" {
		ap = "chan"
	}
	x.siteAsserts(st, fr, "send:"+ap, i.Pos())
	x.escapable(st, fr, "send:"+ap, ch.Term, false, i.Pos())
	if x.worder() != nil {
		x.waitCheck(st, "send:"+ap, []waitCase{{x.classOfValue(st, i.Chan, ap), "send on " + ap}}, nil, i.Pos())
	}
	x.interfere(st, "send "+ap)
	st.Assume(Neq(ch.Term, IntLit(0)))
	k := x.site(st, "send:"+ap)
	if x.neverClosed(ap) {
		st.Assume(Not(st.closed(ch.Term)))
	}
	x.oblige(st, "nopanic", fmt.Sprintf("nopanic:send-on-closed@%s#%d", ap, k), Not(st.closed(ch.Term)), i.Pos(), "")
	st.Assume(Not(st.closed(ch.Term)))
	x.closeOnlyCheck(st, ap, ch.Term, k, i.Pos())
	x.logSend(st, ap, v)
	x.markEscaped(st, v)
	// whatever was sent (and what it reaches) is shared from now on
	x.checkObjInvsOnShare(st, "send:"+ap, i.Pos())
	st.FreshRefs = map[string]bool{}
	st.FreshList = nil
	st.Trace = append(st.Trace, "send "+ap)
}

// markEscaped: a pointer to a struct sent on a channel is in the hands of the receiver from now on.
func (x *Exec) markEscaped(st *State, v *Val) {
	if v == nil || v.Term == nil || pointee(v.T) == nil {
		return
	}
	ns := namedStruct(pointee(v.T))
	if ns == nil {
		return
	}
	st.Escaped = append(st.Escaped[:len(st.Escaped):len(st.Escaped)], escapedRef{v.Term, ns})
}

// havocEscaped: the receiver of an object sent away may change, at any time, every field of it that code outside the
// package can reach: exported fields and fields assigned by exported methods (e.g. Message.SetContext); the contents
// of maps stored in such fields change with them. Monitor-guarded fields follow the monitor rules instead.
func (x *Exec) havocEscaped(st *State) {
	for _, e := range st.Escaped {
		tc := x.V.C.Types[typeName(e.Root)]
		stt, ok := e.Root.Underlying().(*types.Struct)
		if !ok {
			continue
		}
		for k := 0; k < stt.NumFields(); k++ {
			f := stt.Field(k)
			guarded := false
			if tc != nil {
				for _, m := range tc.Monitors {
					if m.Guards[f.Name()] {
						guarded = true
					}
				}
			}
			if guarded || !(f.Exported() || x.V.fieldSetByExportedMethod(e.Root, f.Name())) {
				continue
			}
			if _, isChan := f.Type().Underlying().(*types.Chan); isChan {
				continue
			}
			nv := freshVal(f.Type(), "esc$"+sanitize(f.Name()))
			st.assumeValAllocated(nv)
			st.storePath(e.Root, e.Ref, f.Name(), f.Type(), nv)
		}
	}
}

// closeOnlyCheck: channels marked close-only (ghost closeonly NAME at their make) are never sent on. The obligation
// is generated at every send of a package whose contracts use the notion.
func (x *Exec) closeOnlyCheck(st *State, ap string, ch *Term, k int, pos token.Pos) {
	if !x.V.C.UsesCloseOnly[x.Fn.Pkg.Pkg.Name()] {
		return
	}
	x.oblige(st, "assert", fmt.Sprintf("closeonly:no-send-on-a-close-only-channel@%s#%d", ap, k), Not(st.closeOnly(ch)), pos, "")
}

func (x *Exec) logSend(st *State, ap string, v *Val) {
	n := st.ghostInt("sends$" + ap)
	var ts []*Term
	flatten(x.toHeapVal(st, v, nil), &ts)
	if len(ts) == 1 {
		arr := st.heapGet("G$sent$"+ap, ArrSort(SInt, ts[0].Sort))
		st.Heap["G$sent$"+ap] = Store(arr, n, ts[0])
	}
	st.setGhost("sends$"+ap, Add(n, IntLit(1)))
}

// escapable: a blocking operation outside a select with an escape case must be provably non-blocking.
func (x *Exec) escapable(st *State, fr *Frame, site string, ch *Term, inSelect bool, pos token.Pos) {
	if x.FC == nil || len(st.Frames) != 1 {
		return
	}
	for _, cl := range x.FC.Of("escapable") {
		if cl.Site == site || cl.Site == "*" {
			k := x.site(st, "esc:"+site)
			g := And(Neq(ch, IntLit(0)), Lt(Select(st.ghostArr("clen", SInt), ch), Select(st.ghostArr("ccap", SInt), ch)))
			x.oblige(st, "escapable", fmt.Sprintf("escapable@%s#%d", site, k), g, pos, "an unconditional send must find a free buffer slot")
		}
	}
}

func (x *Exec) selectStmt(st *State, fr *Frame, i *ssa.Select) {
	k := x.site(st, "select")
	x.siteAsserts(st, fr, fmt.Sprintf("select#%d", k), i.Pos())
	if i.Blocking && x.worder() != nil {
		var cases []waitCase
		for ci, c := range i.States {
			ap := accessPath(c.Chan)
			what := "receive from "
			if c.Dir != types.RecvOnly {
				what = "send on "
			}
			if ap == "" {
				ap = fmt.Sprintf("case%d", ci)
			}
			cases = append(cases, waitCase{x.classOfValue(st, c.Chan, ap), what + ap})
		}
		x.waitCheck(st, "select", cases, nil, i.Pos())
	}
	x.interfere(st, fmt.Sprintf("select#%d", k))
	// result tuple: (index int, recvOk bool, recv_0 ... )
	tup := i.Type().(*types.Tuple)
	build := func(s *State, idx int, recvIdx int, v *Val, ok *Term) {
		res := []*Val{intVal(IntLit(int64(idx))), boolVal(ok)}
		ri := 0
		for _, c := range i.States {
			if c.Dir == types.RecvOnly {
				et := c.Chan.Type().Underlying().(*types.Chan).Elem()
				if ri == recvIdx && v != nil {
					res = append(res, v)
				} else {
					res = append(res, zeroVal(et))
				}
				ri++
			}
		}
		_ = tup
		s.Top().Regs[i] = &Val{T: i.Type(), Fields: res}
	}
	type alt struct {
		idx  int
		kind string
	}
	var states []*State
	ri := 0
	for ci, c := range i.States {
		ch := x.val(st, fr, c.Chan)
		ap := accessPath(c.Chan)
		if ap == "" {
			if fk := chanFieldKey(c.Chan); fk != "" {
				ap = "field:" + fk
				x.chanKeys[ap] = fk
			}
		}
		if k := chanKind(c.Chan); k != "" {
			ap = k
			x.note("ASSUMED: ctx.Done() channels are close-only and closed exactly when the context ends; time.After channels deliver one value and are never closed")
		}
		if ap == "" {
			ap = fmt.Sprintf("case%d", ci)
		}
		if c.Dir == types.RecvOnly {
			et := c.Chan.Type().Underlying().(*types.Chan).Elem()
			if ap == "timer" {
				s1 := st.Clone()
				v := freshVal(et, "tick")
				x.logRecv(s1, ap, v)
				s1.Trace = append(s1.Trace, fmt.Sprintf("select#%d: timer fired", k))
				build(s1, ci, ri, v, True)
				states = append(states, s1)
				ri++
				continue
			}
			if !x.V.noSendChan(x, ap) && ap != "ctxdone" {
				s1 := st.Clone()
				s1.Assume(Neq(ch.Term, IntLit(0)))
				s1.Assume(Not(s1.closeOnly(ch.Term)))
				v := freshVal(et, "recv$"+sanitize(ap))
				s1.assumeValAllocated(v)
				if x.recvNonNil(ap) && v.Term != nil {
					s1.Assume(Neq(v.Term, IntLit(0)))
				}
				x.logRecv(s1, ap, v)
				s1.Trace = append(s1.Trace, fmt.Sprintf("select#%d: recv %s value", k, ap))
				build(s1, ci, ri, v, True)
				states = append(states, s1)
			}
			if x.neverClosed(ap) {
				ri++
				continue
			}
			s2 := st.Clone()
			s2.Assume(Neq(ch.Term, IntLit(0)))
			s2.Assume(s2.closed(ch.Term))
			if ap == "ctxdone" {
				if call, ok := c.Chan.(*ssa.Call); ok {
					if cv := x.val(s2, s2.Top(), call.Call.Value); cv != nil && cv.Term != nil {
						s2.Assume(Select(s2.ghostArr("cancelled", SBool), cv.Term))
					}
				}
			}
			s2.Trace = append(s2.Trace, fmt.Sprintf("select#%d: recv %s closed", k, ap))
			build(s2, ci, ri, zeroVal(et), False)
			states = append(states, s2)
			ri++
		} else {
			s1 := st.Clone()
			s1.Assume(Neq(ch.Term, IntLit(0)))
			kk := x.site(s1, "send:"+ap)
			if x.neverClosed(ap) {
				s1.Assume(Not(s1.closed(ch.Term)))
			}
			x.oblige(s1, "nopanic", fmt.Sprintf("nopanic:send-on-closed@%s#%d", ap, kk), Not(s1.closed(ch.Term)), i.Pos(), "")
			s1.Assume(Not(s1.closed(ch.Term)))
			x.closeOnlyCheck(s1, ap, ch.Term, kk, i.Pos())
			sv := x.val(s1, s1.Top(), c.Send)
			x.siteAsserts(s1, s1.Top(), "send:"+ap, i.Pos())
			x.logSend(s1, ap, sv)
			x.markEscaped(s1, sv)
			x.checkObjInvsOnShare(s1, "send:"+ap, i.Pos())
			s1.FreshRefs = map[string]bool{}
			s1.FreshList = nil
			s1.Trace = append(s1.Trace, fmt.Sprintf("select#%d: send %s", k, ap))
			build(s1, ci, -1, nil, False)
			states = append(states, s1)
		}
	}
	if !i.Blocking {
		s := st.Clone()
		// default is taken only when no case is ready: a close-only channel is then not closed
		for _, c := range i.States {
			if c.Dir != types.RecvOnly {
				continue
			}
			ap := accessPath(c.Chan)
			if kk := chanKind(c.Chan); kk != "" {
				ap = kk
			}
			if ap == "" {
				if fk := chanFieldKey(c.Chan); fk != "" {
					ap = "field:" + fk
					x.chanKeys[ap] = fk
				}
			}
			if x.V.noSendChan(x, ap) || ap == "ctxdone" {
				if cv := x.val(s, s.Top(), c.Chan); cv != nil && cv.Term != nil {
					s.Assume(Or(Eq(cv.Term, IntLit(0)), Not(s.closed(cv.Term))))
				}
			}
		}
		s.Trace = append(s.Trace, fmt.Sprintf("select#%d: default", k))
		build(s, -1, -1, nil, False)
		states = append(states, s)
	}
	if len(states) == 0 {
		st.Done = true
		st.ExitKind = "blocked"
		return
	}
	// replace current state by the first alternative; queue the rest
	*st = *states[0]
	for _, s := range states[1:] {
		x.Work = append(x.Work, s)
	}
}

func (x *Exec) goStmt(st *State, fr *Frame, i *ssa.Go) {
	c := &i.Call
	var name string
	var callee *ssa.Function
	var freeVars []*Val
	var args []*Val
	for _, a := range c.Args {
		args = append(args, x.val(st, fr, a))
	}
	if c.IsInvoke() {
		name = accessPath(c.Value) + "." + c.Method.Name()
	} else {
		fv := x.val(st, fr, c.Value)
		switch {
		case fv.Fn != nil:
			callee = fv.Fn
		case fv.Clo != nil:
			callee = fv.Clo.Fn
			freeVars = fv.Clo.Bindings
		}
		if callee != nil {
			name = callee.RelString(callee.Package().Pkg)
		} else {
			name = accessPath(c.Value)
		}
	}
	extra := map[string]*Val{}
	for ai, a := range args {
		extra[fmt.Sprintf("goarg%d", ai)] = a
	}
	x.siteAssertsWith(st, fr, "go:"+name, i.Pos(), extra)
	k := x.site(st, "go:"+name)
	if callee != nil {
		if fc, ok := x.V.C.Funcs[x.V.P.FuncKey(callee)]; ok {
			env := x.calleeEnv(st, callee, args, freeVars)
			for _, cl := range fc.Of("requires") {
				g := x.V.evalBool(env, cl.E)
				x.oblige(st, "pre", fmt.Sprintf("pre:%s@go:%s#%d", cl.Label, name, k), g, i.Pos(), cl.Text)
			}
			for _, cl := range fc.Of("ghost") {
				switch {
				case strings.HasPrefix(cl.Text, "consumes-wg "):
					// the new goroutine takes over one WaitGroup token of the spawning thread
					wgText, subjText := splitConsumes(cl.Text)
					e, err := ParseExpr(wgText)
					if err != nil {
						panic(unsupported{err.Error()})
					}
					r := x.refOf(x.V.syncRef(env, e))
					if subjText != "" {
						// the token is bound to a subject: from now on "a token of this WaitGroup is out for this object"
						se, err := ParseExpr(subjText)
						if err != nil {
							panic(unsupported{err.Error()})
						}
						sv := x.V.eval(env, se)
						x.setMark(st, "wgpending", r, sv.Term)
					}
					mine := st.ghostArr("wgmine", SInt)
					x.oblige(st, "pre", fmt.Sprintf("pre:wg-token-handed-over@go:%s#%d", name, k), Ge(Select(mine, r), IntLit(1)), i.Pos(), cl.Text)
					st.setGhostArr("wgmine", Store(mine, r, Sub(Select(mine, r), IntLit(1))))
				case strings.HasPrefix(cl.Text, "borrows "):
					// the new goroutine relies on a lock the spawning thread keeps holding
					e, err := ParseExpr(strings.TrimPrefix(cl.Text, "borrows "))
					if err != nil {
						panic(unsupported{err.Error()})
					}
					lv := x.V.evalLockRef(env, x, st, e)
					id := x.refOf(lv).String()
					_, held := st.Held[id]
					if held || x.V.entryHeld[id] {
						x.oblige(st, "pre", fmt.Sprintf("pre:lock-lent@go:%s#%d", name, k), True, i.Pos(), cl.Text)
						st.Lent = append(st.Lent[:len(st.Lent):len(st.Lent)], id)
					} else {
						x.failHard(st, "pre", fmt.Sprintf("pre:lock-lent@go:%s#%d", name, k), i.Pos(), "the goroutine's contract says it borrows "+cl.Text[8:]+", which the spawning thread does not hold")
					}
				case strings.HasPrefix(cl.Text, "holds "):
					// lock hand-off: the spawning thread must hold the lock and gives it up
					e, err := ParseExpr(strings.TrimPrefix(cl.Text, "holds "))
					if err != nil {
						panic(unsupported{err.Error()})
					}
					lv := x.V.evalLockRef(env, x, st, e)
					id := x.refOf(lv).String()
					if hh, ok := st.Held[id]; ok {
						x.oblige(st, "pre", fmt.Sprintf("pre:lock-handed-over@go:%s#%d", name, k), True, i.Pos(), cl.Text)
						x.checkHeldInvariants(st, hh, fmt.Sprintf("go:%s#%d", name, k), i.Pos())
						delete(st.Held, id)
					} else {
						x.failHard(st, "pre", fmt.Sprintf("pre:lock-handed-over@go:%s#%d", name, k), i.Pos(), "the goroutine's contract says it holds "+cl.Text+" at entry, but the spawning thread does not hold it")
					}
				}
			}
		}
	}
	// ghost spawn log
	n := st.ghostInt("spawned$" + name)
	for ai, a := range args {
		var ts []*Term
		flatten(x.toHeapVal(st, a, nil), &ts)
		if len(ts) == 1 {
			fam := fmt.Sprintf("G$spawnarg$%s$%d", name, ai)
			arr := st.heapGet(fam, ArrSort(SInt, ts[0].Sort))
			st.Heap[fam] = Store(arr, n, ts[0])
		} else if len(ts) == 2 && a.T != nil && shapeOf(a.T) == shSlice {
			for k, suf := range []string{"base", "len"} {
				fam := fmt.Sprintf("G$spawnarg$%s$%d$%s", name, ai, suf)
				arr := st.heapGet(fam, ArrSort(SInt, SInt))
				st.Heap[fam] = Store(arr, n, ts[k])
			}
		}
	}
	if callee != nil {
		for bi, b := range freeVars {
			if b == nil || b.Cell == nil || bi >= len(callee.FreeVars) {
				continue
			}
			cv := st.Cells[b.Cell]
			if cv == nil {
				continue
			}
			var ts []*Term
			flatten(x.toHeapVal(st, cv, nil), &ts)
			if len(ts) == 1 {
				fam := fmt.Sprintf("G$spawnfv$%s$%s", name, callee.FreeVars[bi].Name())
				arr := st.heapGet(fam, ArrSort(SInt, ts[0].Sort))
				st.Heap[fam] = Store(arr, n, ts[0])
			}
		}
	}
	st.setGhost("spawned$"+name, Add(n, IntLit(1)))
	// objects reachable by the new thread are no longer thread-local
	x.checkObjInvsOnShare(st, "go:"+name, i.Pos())
	st.FreshRefs = map[string]bool{}
	st.FreshList = nil
	st.Trace = append(st.Trace, "go "+name)
}

// ---- range over maps ----

func (x *Exec) rangeInit(st *State, fr *Frame, i *ssa.Range) {
	xv := x.val(st, fr, i.X)
	mt, ok := i.X.Type().Underlying().(*types.Map)
	if !ok {
		unsupportedf("range over %s", i.X.Type())
	}
	id, ok := x.iterIDs[i]
	if !ok {
		id = len(x.iterIDs) + 1
		x.iterIDs[i] = id
	}
	ks := leafSort(mt.Key())
	it := &RangeIter{ID: id, Map: xv, KeySort: ks, Visited: fmt.Sprintf("G$visited$%d", id)}
	regSort(it.Visited, ArrSort(ks, SBool))
	st.Heap[it.Visited] = ConstArr(ArrSort(ks, SBool), False)
	regSort(it.Visited+"$n", SInt)
	st.Heap[it.Visited+"$n"] = IntLit(0)
	st.LiveIters = append(st.LiveIters[:len(st.LiveIters):len(st.LiveIters)], it)
	fr.Regs[i] = &Val{T: i.Type(), Iter: it}
}

func (x *Exec) currentIter(st *State, ks Sort) *RangeIter {
	for k := len(st.LiveIters) - 1; k >= 0; k-- {
		if st.LiveIters[k].KeySort == ks {
			return st.LiveIters[k]
		}
	}
	return nil
}

func (x *Exec) rangeNext(st *State, fr *Frame, i *ssa.Next) {
	itv := x.val(st, fr, i.Iter)
	it := itv.Iter
	if it == nil {
		unsupportedf("next on non-map iterator")
	}
	mt := it.Map.T.Underlying().(*types.Map)
	m := it.Map.Term
	vis := st.heapGet(it.Visited, ArrSort(it.KeySort, SBool))
	// done branch
	done := x.fork(st)
	kb := BoundVar("k", it.KeySort)
	done.Assume(Forall([]*Term{kb}, Implies(And(Neq(m, IntLit(0)), done.mapHas(mt, m, kb)), Select(vis, kb))))
	done.Assume(Eq(done.heapGet(it.Visited+"$n", SInt), Ite(Eq(m, IntLit(0)), IntLit(0), done.mapLen(mt, m))))
	done.Trace = append(done.Trace, "range: done")
	done.Top().Regs[i] = &Val{T: i.Type(), Fields: []*Val{boolVal(False), zeroVal(mt.Key()), zeroVal(mt.Elem())}}
	// next element
	k := Fresh("key", it.KeySort)
	st.Assume(Neq(m, IntLit(0)))
	st.Assume(st.mapHas(mt, m, k))
	st.Assume(Not(Select(vis, k)))
	st.Heap[it.Visited] = Store(vis, k, True)
	st.Heap[it.Visited+"$n"] = Add(st.heapGet(it.Visited+"$n", SInt), IntLit(1))
	st.Assume(Le(st.Heap[it.Visited+"$n"], st.mapLen(mt, m)))
	v := st.mapVal(mt, m, k)
	st.assumeValAllocated(v)
	st.Trace = append(st.Trace, "range: next")
	fr.Regs[i] = &Val{T: i.Type(), Fields: []*Val{boolVal(True), {T: mt.Key(), Term: k}, v}}
}

// ---- encoding/json (ASSUMED round-trip law, stated through decoding functions of the encoded bytes) ----

// jsonTarget: the struct type behind a boxed pointer argument of json.Marshal/Unmarshal.
func (x *Exec) jsonTarget(v *Val) (*types.Named, *Term) {
	if v.Term == nil || (v.Term.Kind != kUF && v.Term.Kind != kConst) {
		return nil, nil
	}
	bs, ok := boxRegistry[v.Term.Op]
	if !ok || !strings.HasPrefix(bs.TName, "*") || len(v.Term.Args) != 1 {
		return nil, nil
	}
	ns := x.V.namedByName(bs.TName[1:])
	if ns == nil {
		return nil, nil
	}
	if _, ok := ns.Underlying().(*types.Struct); !ok {
		return nil, nil
	}
	return ns, v.Term.Args[0]
}

func jsonFn(ns *types.Named, path, suffix string) string {
	return "json$" + typeName(ns) + "$" + path + suffix
}

func (st *State) bytesOf(sl *Val) *Term {
	h := st.heapGet(sliceHeapKey(types.Typ[types.Uint8], ""), ArrSort(SInt, ArrSort(SInt, SInt)))
	return UF("bytes_str", SStr, Select(h, sl.Fields[0].Term), sl.Fields[1].Term)
}

// jsonRelate: content of the struct at ptr  <->  decoding functions applied to the encoded bytes B.
// mode "encode": assume the decoders give back the content. mode "decode": write decoded content into the struct.
func (x *Exec) jsonRelate(st *State, ns *types.Named, ptr, B *Term, decode bool) {
	stt := ns.Underlying().(*types.Struct)
	for i := 0; i < stt.NumFields(); i++ {
		f := stt.Field(i)
		switch ft := f.Type().Underlying().(type) {
		case *types.Basic:
			srt := leafSort(f.Type())
			dec := UF(jsonFn(ns, f.Name(), ""), srt, B)
			if decode {
				st.storePath(ns, ptr, f.Name(), f.Type(), &Val{T: f.Type(), Term: dec})
			} else {
				st.Assume(Eq(dec, st.loadPath(ns, ptr, f.Name(), f.Type()).Term))
			}
		case *types.Slice:
			if b, ok := ft.Elem().Underlying().(*types.Basic); !ok || b.Kind() != types.Uint8 {
				unsupportedf("json model: field %s of type %s", f.Name(), f.Type())
			}
			dec := UF(jsonFn(ns, f.Name(), "$bytes"), SStr, B)
			if decode {
				base := st.newRef("jsonbytes")
				ln := Fresh("jsonlen", SInt)
				st.Assume(Ge(ln, IntLit(0)))
				nv := &Val{T: f.Type(), Fields: []*Val{{Term: Ite(Eq(ln, IntLit(0)), Fresh("maybenil", SInt), base)}, {Term: ln}}}
				st.Assume(Or(Eq(nv.Fields[0].Term, IntLit(0)), Eq(nv.Fields[0].Term, base)))
				st.storePath(ns, ptr, f.Name(), f.Type(), nv)
				st.Assume(Eq(st.bytesOf(nv), dec))
			} else {
				st.Assume(Eq(dec, st.bytesOf(st.loadPath(ns, ptr, f.Name(), f.Type()))))
			}
		case *types.Map:
			ks := leafSort(ft.Key())
			if ks != SStr || shapeOf(ft.Elem()) != shLeaf {
				unsupportedf("json model: map field %s", f.Name())
			}
			vs := leafSort(ft.Elem())
			k := BoundVar("k", ks)
			decHas := UF(jsonFn(ns, f.Name(), "$has"), SBool, B, k)
			decVal := UF(jsonFn(ns, f.Name(), "$val"), vs, B, k)
			var m *Term
			if decode {
				nm := st.newRef("jsonmap")
				m = Fresh("jsonmapornil", SInt)
				st.Assume(Or(Eq(m, IntLit(0)), Eq(m, nm)))
				st.storePath(ns, ptr, f.Name(), f.Type(), &Val{T: f.Type(), Term: m})
			} else {
				m = st.loadPath(ns, ptr, f.Name(), f.Type()).Term
			}
			has := And(Neq(m, IntLit(0)), st.mapHas(ft, m, k))
			val := st.mapVal(ft, m, k).Term
			st.Assume(Forall([]*Term{k}, And(Eq(decHas, has), Implies(has, Eq(decVal, val)))))
		default:
			unsupportedf("json model: field %s of type %s", f.Name(), f.Type())
		}
	}
}

func (x *Exec) jsonMarshal(st *State, fr *Frame, dst ssa.Value, args []*Val, pos token.Pos) bool {
	x.note("ASSUMED encoding/json: Marshal's output determines every field of the encoded struct (round-trip law for valid UTF-8 strings, []byte and map[string]string), Unmarshal reads exactly those values back; either may fail")
	byteSlice := types.NewSlice(types.Typ[types.Uint8])
	errT := types.Universe.Lookup("error").Type()
	base := st.newRef("json")
	ln := Fresh("jsonlen", SInt)
	st.Assume(Ge(ln, IntLit(0)))
	out := &Val{T: byteSlice, Fields: []*Val{{Term: base}, {Term: ln}}}
	// failure branch
	fs := x.fork(st)
	ferr := Fresh("jsonerr", SInt)
	fs.Assume(Gt(ferr, IntLit(0)))
	fs.Top().Regs[dst] = &Val{T: dst.Type(), Fields: []*Val{zeroVal(byteSlice), {T: errT, Term: ferr}}}
	fs.Trace = append(fs.Trace, "json.Marshal fails")
	B := st.bytesOf(out)
	if ns, ptr := x.jsonTarget(args[0]); ns != nil {
		x.jsonRelate(st, ns, ptr, B, false)
	} else {
		st.Assume(Eq(B, UF("json$enc", SStr, args[0].Term)))
	}
	fr.Regs[dst] = &Val{T: dst.Type(), Fields: []*Val{out, {T: errT, Term: IntLit(0)}}}
	st.Trace = append(st.Trace, "json.Marshal ok")
	return true
}

func (x *Exec) jsonUnmarshal(st *State, fr *Frame, dst ssa.Value, args []*Val, pos token.Pos) bool {
	x.note("ASSUMED encoding/json: Marshal's output determines every field of the encoded struct (round-trip law for valid UTF-8 strings, []byte and map[string]string), Unmarshal reads exactly those values back; either may fail")
	errT := types.Universe.Lookup("error").Type()
	B := st.bytesOf(args[0])
	ns, ptr := x.jsonTarget(args[1])
	// failure branch: target left in an unspecified state
	fs := x.fork(st)
	ferr := Fresh("jsonerr", SInt)
	fs.Assume(Gt(ferr, IntLit(0)))
	if ns != nil {
		fs.storePath(ns, ptr, "", ns, freshVal(ns, "jsonpartial"))
	}
	fs.Top().Regs[dst] = &Val{T: errT, Term: ferr}
	fs.Trace = append(fs.Trace, "json.Unmarshal fails")
	if ns != nil {
		x.jsonRelate(st, ns, ptr, B, true)
	} else if args[1].Cell != nil && shapeOf(args[1].Cell.T) == shLeaf {
		// pointer to a local variable of an opaque (leaf) type: the decoded value is a function of the bytes
		c := args[1].Cell
		st.Cells[c] = &Val{T: c.T, Term: UF("json$dec$"+typeName(c.T), leafSort(c.T), B)}
		fs.Cells[c] = freshVal(c.T, "jsonpartial")
	} else {
		// unknown target type: its content afterwards is a function of the bytes (nothing more is known)
		st.setGhostArr("jsondecoded", Store(st.ghostArr("jsondecoded", SStr), args[1].Term, B))
	}
	fr.Regs[dst] = &Val{T: errT, Term: IntLit(0)}
	st.Trace = append(st.Trace, "json.Unmarshal ok")
	return true
}

func (x *Exec) recvNonNil(ap string) bool {
	if x.FC == nil {
		return false
	}
	for _, cl := range x.FC.Of("ghost") {
		if cl.Text == "recv-nonnil "+ap {
			x.note("ASSUMED: values received from " + ap + " are never nil")
			return true
		}
	}
	return false
}

// checkStrong: strong invariants of a type hold at every instant, so every write to the object's
// guarded state (and every close of a channel stored in it) must re-establish them immediately.
func (x *Exec) checkStrong(st *State, root *types.Named, base *Term, site string, pos token.Pos) {
	tc := x.V.C.Types[typeName(root)]
	if tc == nil || len(tc.Strong) == 0 || st.FreshRefs[base.Op] {
		return
	}
	if strings.HasPrefix(site, "store:") {
		guarded := false
		for _, m := range tc.Monitors {
			if m.Guards[strings.TrimPrefix(site, "store:")] {
				guarded = true
			}
		}
		if !guarded {
			return // strong invariants speak about guarded state only
		}
	}
	env := &Env{V: x.V, X: x, St: st, Vars: map[string]*Val{}, Pkg: x.V.P.TPkgs[tc.Pkg], Epoch: st.Epoch}
	env.Vars[tc.Self] = &Val{T: types.NewPointer(root), Term: base}
	k := x.site(st, "strong:"+site)
	for _, inv := range tc.Strong {
		x.oblige(st, "monitor", fmt.Sprintf("monitor:strong:%s@%s#%d", inv.Label, site, k), x.V.evalBool(env, inv.E), pos, inv.Text)
	}
}

// ---- object invariants (type clause object-invariant) ----

// assumeObjInvs: a shared (not thread-local) non-nil object of a type with object invariants satisfies them.
func (x *Exec) assumeObjInvs(st *State, v *Val) {
	if x.inObjInv || v.Term == nil || pointee(v.T) == nil || st.FreshRefs[v.Term.Op] {
		return
	}
	ns := namedStruct(pointee(v.T))
	if ns == nil {
		return
	}
	tc := x.V.C.Types[typeName(ns)]
	if tc == nil || len(tc.ObjInvs) == 0 {
		return
	}
	x.inObjInv = true
	defer func() { x.inObjInv = false }()
	env := &Env{V: x.V, X: x, St: st, Vars: map[string]*Val{}, Pkg: x.V.P.TPkgs[tc.Pkg], Epoch: st.Epoch}
	env.Vars[tc.Self] = &Val{T: types.NewPointer(ns), Term: v.Term}
	for _, inv := range tc.ObjInvs {
		st.Assume(Implies(Neq(v.Term, IntLit(0)), x.V.evalBool(env, inv.E)))
	}
}

// checkObjInvsOnShare: objects that stop being thread-local here must satisfy their object invariants.
func (x *Exec) checkObjInvsOnShare(st *State, why string, pos token.Pos) {
	for _, r := range st.FreshList {
		ns := st.FreshTypes[r.Op]
		if ns == nil || !st.FreshRefs[r.Op] {
			continue
		}
		x.checkObjInvs(st, ns, r, "share:"+why, pos)
	}
}

func (x *Exec) checkObjInvs(st *State, ns *types.Named, base *Term, site string, pos token.Pos) {
	tc := x.V.C.Types[typeName(ns)]
	if tc == nil || len(tc.ObjInvs) == 0 {
		return
	}
	x.inObjInv = true
	defer func() { x.inObjInv = false }()
	env := &Env{V: x.V, X: x, St: st, Vars: map[string]*Val{}, Pkg: x.V.P.TPkgs[tc.Pkg], Epoch: st.Epoch}
	env.Vars[tc.Self] = &Val{T: types.NewPointer(ns), Term: base}
	k := x.site(st, "objinv:"+site)
	for _, inv := range tc.ObjInvs {
		x.oblige(st, "inv", fmt.Sprintf("object-invariant:%s@%s#%d", inv.Label, site, k), x.V.evalBool(env, inv.E), pos, inv.Text)
	}
}

// objInvMentions: the object invariants of the type mention the field (syntactically: SELF.field).
func (x *Exec) objInvMentions(ns *types.Named, field string) bool {
	tc := x.V.C.Types[typeName(ns)]
	if tc == nil {
		return false
	}
	for _, inv := range tc.ObjInvs {
		if strings.Contains(inv.Text, tc.Self+"."+field) {
			return true
		}
	}
	return false
}

// assumeStrong: assume the strong invariants of the objects named by `ghost strong EXPR` clauses.
func (x *Exec) assumeStrong(st *State) {
	if x.FC == nil || len(st.Frames) == 0 {
		return
	}
	for _, cl := range x.FC.Of("ghost") {
		if !strings.HasPrefix(cl.Text, "strong ") {
			continue
		}
		e, err := ParseExpr(strings.TrimPrefix(cl.Text, "strong "))
		if err != nil {
			panic(unsupported{err.Error()})
		}
		env := x.envAt(st, st.Frames[0])
		ov := x.V.eval(env, e)
		if ov.Term == nil || pointee(ov.T) == nil {
			continue
		}
		ns := namedStruct(pointee(ov.T))
		if ns == nil {
			continue
		}
		tc := x.V.C.Types[typeName(ns)]
		if tc == nil {
			continue
		}
		ienv := &Env{V: x.V, X: x, St: st, Vars: map[string]*Val{}, Pkg: x.V.P.TPkgs[tc.Pkg], Epoch: st.Epoch}
		ienv.Vars[tc.Self] = ov
		for _, inv := range tc.Strong {
			st.Assume(Implies(Neq(ov.Term, IntLit(0)), x.V.evalBool(ienv, inv.E)))
		}
	}
}
