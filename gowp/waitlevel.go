package main

// Wait levels: deadlock freedom as a per-function obligation, after Leino, Mueller, Smans, "Deadlock-free channels and
// locks" (ESOP 2010), in the form a path-wise VC generator can check.
//
// A package declares one total order over the classes of objects its threads block on:
//
//	//@ waitorder T.lockA < T.wg < U.lockB < doneSignal < U.closing
//
// A class is a lock, WaitGroup or channel field (Type.field), the mutexes kept in a sync.Map field (Type.field), or a
// bare name given to a local or parameter by `ghost waitclass PATH = NAME` in a function contract. What a thread holds
// is: the locks it has acquired or was handed (ghost holds), the WaitGroup tokens it has to return (ghost consumes-wg,
// or its own Add not yet handed to a goroutine), and the channels it alone has to close (ghost owns, ghost obliged).
//
// Rule, checked at every blocking operation (Lock, RLock, WaitGroup.Wait, a receive or send outside a select, a select
// without default) as obligation "waitlevel:...": some case of the operation waits for an object whose class is in the
// order and lies strictly above every lock held, and above every obligation not yet discharged at that point (a token
// already returned, a channel already closed - these are solver goals over the path condition, not syntax). A timer
// case always justifies a select. Cases on objects outside the order (the consumer reading an output channel, an Ack,
// ctx.Done()) justify blocking only for a thread with empty hands - no lock held, every obligation discharged: the
// environment promises nothing, so nobody may be kept waiting for a thread that waits for it.
//
// A function under contract that blocks declares `ghost waits CLASS`, the lowest class it may block on; its own blocking
// operations are checked to lie at or above it, and every call site is checked as a blocking operation on CLASS.
// Callees without contract are executed in line and checked in place. Calls through interfaces and function values
// (loggers, user handlers) are ASSUMED not to block on objects of the package.
//
// What this proves: no cycle in the wait-for relation among the package's own threads; every wait is for an object whose
// discharger (by the contracts: the owner's postcondition closed(c), the token holder's wgtoken == 0, the balanced
// unlock) only ever waits on strictly higher objects. It does not prove that loops terminate nor that the topmost
// objects (the closing signal: somebody calls Close; the context: somebody cancels it) are ever signalled.

import (
	"fmt"
	"go/token"
	"go/types"
	"sort"
	"strings"

	"golang.org/x/tools/go/ssa"
)

type WaitOrder struct {
	Pkg   string
	Level map[string]int
	Names []string
	Text  string
	File  string
	Line  int
	LocksOnly bool // declared as `lockorder`: only lock acquisitions are ordered (classic lock ordering); waits on channels and WaitGroups are not judged
}

const timerLevel = 1 << 30

func parseWaitOrder(pkg, rest, file string, line int) (*WaitOrder, error) {
	wo := &WaitOrder{Pkg: pkg, Level: map[string]int{}, Text: rest, File: file, Line: line}
	for i, grp := range strings.Split(rest, "<") {
		// A = B: two names of one class (the same lock reached through two fields)
		for _, n := range strings.Split(grp, "=") {
			n = strings.TrimSpace(n)
			if n == "" {
				return nil, fmt.Errorf("%s:%d: waitorder: empty class name", file, line)
			}
			q := qualifyClass(pkg, n)
			if _, dup := wo.Level[q]; dup {
				return nil, fmt.Errorf("%s:%d: waitorder: class %s listed twice", file, line, n)
			}
			wo.Level[q] = (i + 1) * 10
			wo.Names = append(wo.Names, q)
		}
	}
	return wo, nil
}

func qualifyClass(pkg, n string) string {
	n = strings.TrimSpace(n)
	if strings.Contains(n, ".") && !strings.HasPrefix(n, pkg+".") {
		return pkg + "." + n
	}
	return n
}

func (wo *WaitOrder) level(class string) (int, bool) {
	if class == "timer" {
		return timerLevel, true
	}
	l, ok := wo.Level[class]
	return l, ok
}

type waitOblig struct {
	Kind  string // chan | wg
	Ref   *Term
	Class string
	What  string
}

type waitCase struct {
	Class string
	Desc  string
}

func (x *Exec) worder() *WaitOrder {
	if x.Fn == nil || x.Fn.Pkg == nil {
		return nil
	}
	return x.V.C.WaitOrders[x.Fn.Pkg.Pkg.Name()]
}

// waitClassMap: `ghost waitclass PATH = CLASS` clauses of the function under verification.
func (x *Exec) waitClassMap() map[string]string {
	if x.wclass != nil {
		return x.wclass
	}
	x.wclass = map[string]string{}
	if x.FC != nil {
		for _, cl := range x.FC.Of("ghost") {
			if !strings.HasPrefix(cl.Text, "waitclass ") {
				continue
			}
			p := strings.SplitN(strings.TrimPrefix(cl.Text, "waitclass "), "=", 2)
			if len(p) != 2 {
				unsupportedf("ghost waitclass PATH = CLASS: %q", cl.Text)
			}
			x.wclass[strings.TrimSpace(p[0])] = qualifyClass(x.FC.Pkg, p[1])
		}
	}
	return x.wclass
}

// declaredWaits: class of `ghost waits CLASS` ("" when absent).
func declaredWaits(fc *FuncContract) string {
	if fc == nil {
		return ""
	}
	for _, cl := range fc.Of("ghost") {
		if strings.HasPrefix(cl.Text, "waits ") {
			if strings.TrimSpace(strings.TrimPrefix(cl.Text, "waits ")) == "env" {
				return "env"
			}
			return qualifyClass(fc.Pkg, strings.TrimPrefix(cl.Text, "waits "))
		}
	}
	return ""
}

// originOf peels loads of single-assignment locals, conversions, type assertions and tuple extractions.
func originOf(v ssa.Value, depth int) ssa.Value {
	if depth > 8 {
		return v
	}
	switch a := v.(type) {
	case *ssa.UnOp:
		if a.Op == token.MUL {
			if al, ok := a.X.(*ssa.Alloc); ok {
				var src ssa.Value
				n := 0
				for _, ref := range *al.Referrers() {
					if s, ok := ref.(*ssa.Store); ok && s.Addr == ssa.Value(al) {
						src = s.Val
						n++
					}
				}
				if n == 1 && src != nil {
					return originOf(src, depth+1)
				}
			}
		}
	case *ssa.ChangeType:
		return originOf(a.X, depth+1)
	case *ssa.TypeAssert:
		return originOf(a.X, depth+1)
	case *ssa.Extract:
		return originOf(a.Tuple, depth+1)
	case *ssa.MakeInterface:
		return originOf(a.X, depth+1)
	}
	return v
}

// classOfValue: the wait class of the object a blocking operation is applied to.
func (x *Exec) classOfValue(st *State, v ssa.Value, ap string) string {
	if len(st.Frames) == 1 {
		if c, ok := x.waitClassMap()[ap]; ok {
			return c
		}
	}
	if k := chanKind(v); k != "" {
		return k
	}
	if k := syncFieldKey(v); k != "" {
		return k
	}
	o := originOf(v, 0)
	if k := chanKind(o); k != "" {
		return k
	}
	if k := syncFieldKey(o); k != "" {
		return k
	}
	if c, ok := o.(*ssa.Call); ok {
		if sc := c.Call.StaticCallee(); sc != nil && (sc.String() == "(*sync.Map).Load" || sc.String() == "(*sync.Map).LoadOrStore") && len(c.Call.Args) > 0 {
			return syncFieldKey(c.Call.Args[0])
		}
	}
	return ""
}

// classOfText: the wait class of a contract expression (ghost holds / owns / consumes-wg / obliged).
func (x *Exec) classOfText(env *Env, text string, fc *FuncContract) string {
	text = strings.TrimSpace(text)
	if fc != nil {
		for _, cl := range fc.Of("ghost") {
			if strings.HasPrefix(cl.Text, "waitclass ") {
				p := strings.SplitN(strings.TrimPrefix(cl.Text, "waitclass "), "=", 2)
				if len(p) == 2 && strings.TrimSpace(p[0]) == text {
					return qualifyClass(fc.Pkg, p[1])
				}
			}
		}
	}
	e, err := ParseExpr(text)
	if err != nil || e.Kind != "sel" {
		return ""
	}
	base := x.V.eval(env, e.Args[0])
	if base == nil || pointee(base.T) == nil {
		return ""
	}
	if ns := namedStruct(pointee(base.T)); ns != nil {
		return typeName(ns) + "." + e.Op
	}
	return ""
}

func (x *Exec) addWaitOblig(st *State, o waitOblig) {
	if x.worder() == nil || o.Ref == nil {
		return
	}
	for _, p := range st.Oblig {
		if p.Ref == o.Ref && p.Kind == o.Kind {
			return
		}
	}
	st.Oblig = append(st.Oblig[:len(st.Oblig):len(st.Oblig)], o)
}

// waitCheck emits the wait-level obligation of one blocking operation. exempt: obligations the callee takes over.
func (x *Exec) waitCheck(st *State, site string, cases []waitCase, exempt map[*Term]bool, pos token.Pos) {
	wo := x.worder()
	if wo == nil {
		return
	}
	if wo.LocksOnly && !strings.HasPrefix(site, "lock:") && !strings.HasPrefix(site, "call:") {
		return
	}
	k := x.site(st, "waitlevel:"+site)
	name := fmt.Sprintf("waitlevel:blocks-only-above-what-it-holds@%s#%d", site, k)
	floor, hasFloor := 0, false
	envDeclared := true
	if len(st.Frames) == 1 && x.FC != nil {
		if c := declaredWaits(x.FC); c == "env" {
			// the function may wait for the environment: its callers come with empty hands (checked at their call sites)
			floor, hasFloor = -1, true
		} else if c != "" {
			envDeclared = false
			l, ok := wo.level(c)
			if !ok {
				x.failHard(st, "waitlevel", name, pos, "ghost waits "+c+": not a class of the package's waitorder")
				return
			}
			floor, hasFloor = l, true
		} else {
			x.failHard(st, "waitlevel", name, pos, "a function under contract that blocks declares the lowest class it waits on (ghost waits CLASS)")
			return
		}
	}
	var ids []string
	for id := range st.Held {
		ids = append(ids, id)
	}
	sort.Strings(ids)
	var why []string
	var alts []*Term
	for _, c := range cases {
		lvl, ok := wo.level(c.Class)
		if !ok {
			// an object outside the order (the environment's): waiting for it harms nobody of this package only if the
			// thread holds no lock and owes nothing any more
			held := 0
			for _, id := range ids {
				if !st.Held[id].Borrowed {
					held++
				}
			}
			if held > 0 {
				why = append(why, fmt.Sprintf("%s: class %q is not in the waitorder (nobody of this package is obliged to signal it) and the thread holds a lock", c.Desc, c.Class))
				continue
			}
			if !envDeclared {
				why = append(why, fmt.Sprintf("%s: class %q is not in the waitorder; a function that waits for the environment says so (ghost waits env), so that its callers come with empty hands", c.Desc, c.Class))
				continue
			}
			var conj []*Term
			for _, o := range st.Oblig {
				if exempt[o.Ref] {
					continue
				}
				switch o.Kind {
				case "chan":
					conj = append(conj, st.closed(o.Ref))
				case "wg":
					conj = append(conj, Eq(Select(st.ghostArr("wgmine", SInt), o.Ref), IntLit(0)))
				}
			}
			alts = append(alts, And(conj...))
			continue
		}
		if hasFloor && lvl < floor {
			why = append(why, fmt.Sprintf("%s: class %s lies below the declared ghost waits class", c.Desc, c.Class))
			continue
		}
		okCase := true
		for _, id := range ids {
			h := st.Held[id]
			if h.Borrowed {
				continue
			}
			hl, ok := wo.level(h.Class)
			if !ok {
				why = append(why, fmt.Sprintf("%s: a lock is held whose class %q is not in the waitorder", c.Desc, h.Class))
				okCase = false
				break
			}
			if hl >= lvl {
				why = append(why, fmt.Sprintf("%s: waits on %s while holding a lock of class %s, which is not below it", c.Desc, c.Class, h.Class))
				okCase = false
				break
			}
		}
		if !okCase {
			continue
		}
		var conj []*Term
		for _, o := range st.Oblig {
			if exempt[o.Ref] || wo.LocksOnly {
				continue
			}
			ol, ok := wo.level(o.Class)
			if !ok {
				why = append(why, fmt.Sprintf("%s: the thread owes %s, whose class %q is not in the waitorder", c.Desc, o.What, o.Class))
				okCase = false
				break
			}
			if ol < lvl {
				continue
			}
			switch o.Kind {
			case "chan":
				conj = append(conj, st.closed(o.Ref))
			case "wg":
				conj = append(conj, Eq(Select(st.ghostArr("wgmine", SInt), o.Ref), IntLit(0)))
			}
		}
		if !okCase {
			continue
		}
		alts = append(alts, And(conj...))
	}
	if len(alts) == 0 {
		x.failHard(st, "waitlevel", name, pos, "no case of this blocking operation is justified: "+strings.Join(why, "; "))
		return
	}
	x.oblige(st, "waitlevel", name, Or(alts...), pos, "every obligation of this thread at or above the class it waits on is discharged before it blocks (channel closed, token returned)")
}

// waitCheckCall: a call of a function whose contract says `ghost waits CLASS` is a blocking operation on CLASS;
// channels the callee is obliged to close itself (ghost obliged E) are taken over by it.
func (x *Exec) waitCheckCall(st *State, callee *ssa.Function, fc *FuncContract, env *Env, name string, pos token.Pos) {
	if x.worder() == nil {
		return
	}
	c := declaredWaits(fc)
	if c == "" {
		return
	}
	if callee.Pkg != nil && x.Fn.Pkg != nil && callee.Pkg != x.Fn.Pkg {
		// orders are per package: what a callee of another package waits on is outside this package's order
		x.note("ASSUMED (wait levels): " + name + " belongs to another package; the objects it blocks on are disjoint from this package's and it never calls back into this package")
		return
	}
	exempt := map[*Term]bool{}
	for _, cl := range fc.Of("ghost") {
		if strings.HasPrefix(cl.Text, "obliged ") && !strings.Contains(cl.Text, " @") {
			if e, err := ParseExpr(strings.TrimPrefix(cl.Text, "obliged ")); err == nil {
				if ov := x.V.eval(env, e); ov != nil && ov.Term != nil {
					exempt[ov.Term] = true
				}
			}
		}
	}
	if c == "env" {
		c = "" // a callee that may wait for the environment: the caller needs empty hands
	}
	x.waitCheck(st, "call:"+name, []waitCase{{c, "call of " + name}}, exempt, pos)
}

// recvValue: the receiver operand of the sync call being executed.
func (x *Exec) recvOperand(fr *Frame) ssa.Value {
	if x.curDefer != nil {
		if len(x.curDefer.Call.Args) > 0 {
			return x.curDefer.Call.Args[0]
		}
		return nil
	}
	switch c := currentCall(fr).(type) {
	case *ssa.Call:
		if len(c.Call.Args) > 0 {
			return c.Call.Args[0]
		}
	case *ssa.Defer:
		if len(c.Call.Args) > 0 {
			return c.Call.Args[0]
		}
	}
	return nil
}

var _ = types.Typ
