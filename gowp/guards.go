package main

// Vacuity guards: canaries, lemma obligations, replay hooks.

import (
	"crypto/sha1"
	"fmt"
	"os"
	"path/filepath"
)

// runCanaries: for postcondition groups that were discharged by a solver, "pc and post" must be
// satisfiable on at least one path; otherwise every path reaching that postcondition is
// contradictory and the proof of the clause is vacuous.
func (v *Verifier) runCanaries(results []*FuncResult, dir string, perFunc int) (map[string]int, string) {
	os.MkdirAll(dir, 0o755)
	stats := map[string]int{"checked": 0, "feasible": 0, "inconclusive": 0}
	for _, r := range results {
		groups := groupObls(r.Obls)
		n := 0
		for _, g := range groups {
			if g.Kind != "post" || g.Status != "discharged" {
				continue
			}
			if n >= perFunc {
				break
			}
			n++
			stats["checked"]++
			verdict := "unsat"
			for _, o := range g.Instances {
				q := &Query{Name: "canary:" + o.Name, Assumes: o.Assumes, Goal: Not(o.Goal)}
				text := q.SMTText(false)
				h := sha1.Sum([]byte(text))
				file := filepath.Join(dir, fmt.Sprintf("%x.smt2", h[:8]))
				os.WriteFile(file, []byte(text), 0o644)
				res, _ := race(file, 5, false)
				if res.Answer == "sat" {
					verdict = "sat"
					break
				}
				if res.Answer == "unknown" {
					verdict = "unknown"
				}
			}
			switch verdict {
			case "sat":
				stats["feasible"]++
			case "unknown":
				stats["inconclusive"]++
			default:
				return stats, g.Name + ": no path reaches this postcondition with a satisfiable path condition"
			}
		}
	}
	return stats, ""
}

func (v *Verifier) lemmaObligations(prop string, cl *Claim) ([]*Obligation, []string) {
	return nil, nil
}

func (v *Verifier) tryReplay(prop, name string, g *Group, cl *Claim, repo string) (string, bool) {
	return "", false
}
