package main

// Vacuity guards: canaries, lemma obligations, replay hooks.

import (
	"crypto/sha1"
	"fmt"
	"os"
	"path/filepath"
	"os/exec"
	"strings"
	"sync"
)

// runCanaries: for postcondition groups that were discharged by a solver, "pc and post" must be
// satisfiable on at least one path; otherwise every path reaching that postcondition is
// contradictory and the proof of the clause is vacuous.
func (v *Verifier) runCanaries(results []*FuncResult, dir string, perFunc int) (map[string]int, string) {
	os.MkdirAll(dir, 0o755)
	stats := map[string]int{"checked": 0, "feasible": 0, "inconclusive": 0}
	type job struct {
		g     *Group
		files []string
		verdict string
	}
	var jobs []*job
	for _, r := range results {
		groups := groupObls(r.Obls)
		n := 0
		for _, g := range groups {
			if g.Kind != "post" || g.Status != "discharged" || !strings.Contains(g.Name, "#post:") {
				continue
			}
			if n >= perFunc {
				break
			}
			n++
			j := &job{g: g}
			for k, o := range g.Instances {
				if k >= 6 {
					break
				}
				ia, ig, _ := instantiate(o.Assumes, Not(o.Goal))
				q := &Query{Name: "canary:" + o.Name, Assumes: ia, Goal: ig}
				text := q.SMTText(false)
				h := sha1.Sum([]byte(text))
				file := filepath.Join(dir, fmt.Sprintf("%x.smt2", h[:8]))
				os.WriteFile(file, []byte(text), 0o644)
				j.files = append(j.files, file)
			}
			jobs = append(jobs, j)
		}
	}
	var wg sync.WaitGroup
	sem := make(chan struct{}, 6)
	for _, j := range jobs {
		wg.Add(1)
		sem <- struct{}{}
		go func(j *job) {
			defer wg.Done()
			defer func() { <-sem }()
			j.verdict = "unsat"
			for _, f := range j.files {
				res, _ := race(f, 3, false)
				if res.Answer == "sat" {
					j.verdict = "sat"
					return
				}
				if res.Answer == "unknown" {
					j.verdict = "unknown"
				}
			}
		}(j)
	}
	wg.Wait()
	for _, j := range jobs {
		stats["checked"]++
		switch j.verdict {
		case "sat":
			stats["feasible"]++
		case "unknown":
			stats["inconclusive"]++
		default:
			return stats, j.g.Name + ": no path reaches this postcondition with a satisfiable path condition"
		}
	}
	return stats, ""
}

func (v *Verifier) lemmaObligations(prop string, cl *Claim) ([]*Obligation, []string) {
	return nil, nil
}

// tryReplay runs the witness test registered for the obligation (claims.json "replay":
// obligation-name prefix -> "pkgdir|file under /verif/replay|TestName") against the repository under
// check through `go test -overlay` (nothing is written into the repository). A failing test is a
// failing input reproduced on the real code.
func (v *Verifier) tryReplay(prop, name string, g *Group, cl *Claim, repo string) (string, bool) {
	for prefix, spec := range cl.Replay {
		if !strings.HasPrefix(name, prefix) {
			continue
		}
		parts := strings.Split(spec, "|")
		if len(parts) != 3 && (len(parts) < 6 || (len(parts)-4)%2 != 0) {
			continue
		}
		vdir := envOr("VERIF_DIR", "/verif")
		src := filepath.Join(vdir, "replay", parts[1])
		scratch, err := os.MkdirTemp("", "gowp-replay")
		if err != nil {
			return "replay: " + err.Error(), false
		}
		defer os.RemoveAll(scratch)
		ov := filepath.Join(scratch, "ov.json")
		target := filepath.Join(repo, parts[0], "zz_gowp_replay_test.go")
		ovText := fmt.Sprintf(`{"Replace":{%q:%q}}`, target, src)
		instrNote := ""
		if len(parts) >= 6 {
			// schedule forcing: insert gate calls, each after its anchor line, in an overlay copy of the source file
			srcFile := filepath.Join(repo, parts[3])
			data, err := os.ReadFile(srcFile)
			if err != nil {
				return "replay: " + err.Error(), false
			}
			lines := strings.Split(string(data), "\n")
			for g := 4; g+1 < len(parts); g += 2 {
				done := false
				// an anchor "A>>B" is the first line containing B at or after the first line containing A
				anchor, from := parts[g], 0
				if j := strings.Index(anchor, ">>"); j >= 0 {
					for i, l := range lines {
						if strings.Contains(l, anchor[:j]) {
							from = i
							break
						}
					}
					anchor = anchor[j+2:]
				}
				for i, l := range lines {
					if i >= from && strings.Contains(l, anchor) {
						lines = append(lines[:i+1], append([]string{parts[g+1]}, lines[i+1:]...)...)
						done = true
						instrNote += fmt.Sprintf("overlay instrumentation of %s: inserted %q after line %d (%s)\n", parts[3], parts[g+1], i+1, strings.TrimSpace(l))
						break
					}
				}
				if !done {
					return "replay: anchor " + parts[g] + " not found in " + parts[3], false
				}
			}
			inst := filepath.Join(scratch, "instrumented.go")
			os.WriteFile(inst, []byte(strings.Join(lines, "\n")), 0o644)
			ovText = fmt.Sprintf(`{"Replace":{%q:%q,%q:%q}}`, target, src, srcFile, inst)
		}
		os.WriteFile(ov, []byte(ovText), 0o644)
		cmd := exec.Command("go", "test", "-overlay", ov, "-vet=off", "-count=1", "-timeout", "60s", "-run", "^"+parts[2]+"$", "./"+parts[0])
		cmd.Dir = repo
		cmd.Env = append(os.Environ(), "GOFLAGS=-mod=mod", "GOPROXY=off", "GOSUMDB=off", "GOTOOLCHAIN=local")
		out, err := cmd.CombinedOutput()
		text := fmt.Sprintf("%switness test %s (%s) via go test -overlay:\n%s", instrNote, parts[2], src, trunc(string(out), 4000))
		if err != nil && strings.Contains(string(out), "--- FAIL") {
			return text, true
		}
		return text + "\n(the witness test did not fail on this tree)", false
	}
	return "", false
}
