package main

// Vacuity guards: canaries, lemma obligations, replay hooks.

import (
	"crypto/sha1"
	"fmt"
	"os"
	"path/filepath"
	"sync"
)

// runCanaries: for postcondition groups that were discharged by a solver, "pc and post" must be
// satisfiable on at least one path; otherwise every path reaching that postcondition is
// contradictory and the proof of the clause is vacuous.
func (v *Verifier) runCanaries(results []*FuncResult, dir string, perFunc int) (map[string]int, string) {
	os.MkdirAll(dir, 0o755)
	stats := map[string]int{"checked": 0, "feasible": 0, "inconclusive": 0}
	type job struct {
		g     *Group
		files []string
		verdict string
	}
	var jobs []*job
	for _, r := range results {
		groups := groupObls(r.Obls)
		n := 0
		for _, g := range groups {
			if g.Kind != "post" || g.Status != "discharged" {
				continue
			}
			if n >= perFunc {
				break
			}
			n++
			j := &job{g: g}
			for k, o := range g.Instances {
				if k >= 6 {
					break
				}
				ia, ig, _ := instantiate(o.Assumes, Not(o.Goal))
				q := &Query{Name: "canary:" + o.Name, Assumes: ia, Goal: ig}
				text := q.SMTText(false)
				h := sha1.Sum([]byte(text))
				file := filepath.Join(dir, fmt.Sprintf("%x.smt2", h[:8]))
				os.WriteFile(file, []byte(text), 0o644)
				j.files = append(j.files, file)
			}
			jobs = append(jobs, j)
		}
	}
	var wg sync.WaitGroup
	sem := make(chan struct{}, 6)
	for _, j := range jobs {
		wg.Add(1)
		sem <- struct{}{}
		go func(j *job) {
			defer wg.Done()
			defer func() { <-sem }()
			j.verdict = "unsat"
			for _, f := range j.files {
				res, _ := race(f, 3, false)
				if res.Answer == "sat" {
					j.verdict = "sat"
					return
				}
				if res.Answer == "unknown" {
					j.verdict = "unknown"
				}
			}
		}(j)
	}
	wg.Wait()
	for _, j := range jobs {
		stats["checked"]++
		switch j.verdict {
		case "sat":
			stats["feasible"]++
		case "unknown":
			stats["inconclusive"]++
		default:
			return stats, j.g.Name + ": no path reaches this postcondition with a satisfiable path condition"
		}
	}
	return stats, ""
}

func (v *Verifier) lemmaObligations(prop string, cl *Claim) ([]*Obligation, []string) {
	return nil, nil
}

func (v *Verifier) tryReplay(prop, name string, g *Group, cl *Claim, repo string) (string, bool) {
	return "", false
}
