package main

// Path-wise symbolic execution of go/ssa (NaiveForm) functions.

import (
	"sort"
	"fmt"
	"go/constant"
	"go/token"
	"go/types"
	"strings"

	"golang.org/x/tools/go/ssa"
)

type Obligation struct {
	Name    string
	Kind    string
	Func    string
	Assumes []*Term
	Goal    *Term
	Pos     string
	Trace   []string
	Clause  string
	// results
	Status  string // discharged | failed | unknown
	Backend string
	Time    float64
	Model   string
	Note    string
	Syntactic bool
	Cand    bool    // undecided full query with a candidate counterexample from the instantiated one: decided by the retry pass
	Before  []*Term // for "casecover": the same case before the callee's postconditions were assumed
}

type unsupported struct{ msg string }

func unsupportedf(f string, a ...interface{}) { panic(unsupported{fmt.Sprintf(f, a...)}) }

type Exec struct {
	V       *Verifier
	Fn      *ssa.Function
	FC      *FuncContract
	Obls    []*Obligation
	Work    []*State
	Paths   int
	Exits   int
	MaxPaths int
	cellID  int
	siteCount map[string]int
	Entry   *EntryInfo
	cellOf  map[*ssa.Alloc]*Cell // static identity of local cells (one per Alloc site; loops reuse)
	Covers  []*Obligation
	inlineDepth int
	Notes   map[string]bool
	iterIDs map[*ssa.Range]int
	calleeTypes map[string]types.Type
	chanKeys map[string]string
	ghostLetNames map[string]bool
	ghostLetTypes map[string]types.Type
	inObjInv bool
	curDefer *ssa.Defer
	wclass  map[string]string // ghost waitclass PATH = CLASS
	caseCovers map[string]int
}

type EntryInfo struct {
	Params  map[string]*Val
	OldHeap map[string]*Term
	OldCells map[*Cell]*Val
	Results []*types.Var
	FreeCells map[string]*Cell
	FreeVals  map[string]*Val
}

func (x *Exec) note(s string) { x.Notes[s] = true }

func (x *Exec) oblige(st *State, kind, name string, goal *Term, pos token.Pos, clause string) {
	full := x.V.P.FuncKey(x.Fn) + "#" + name
	if goal.IsTrue() {
		x.Obls = append(x.Obls, &Obligation{Name: full, Kind: kind, Func: x.V.P.FuncKey(x.Fn), Goal: goal, Pos: x.V.P.Pos(pos), Clause: clause, Status: "discharged", Backend: "syntactic", Syntactic: true})
		return
	}
	for _, a := range st.PC {
		if a == goal {
			x.Obls = append(x.Obls, &Obligation{Name: full, Kind: kind, Func: x.V.P.FuncKey(x.Fn), Goal: goal, Pos: x.V.P.Pos(pos), Clause: clause, Status: "discharged", Backend: "syntactic", Syntactic: true})
			return
		}
	}
	o := &Obligation{Name: full, Kind: kind, Func: x.V.P.FuncKey(x.Fn), Assumes: st.PC[:len(st.PC):len(st.PC)], Goal: goal, Pos: x.V.P.Pos(pos), Trace: st.Trace[:len(st.Trace):len(st.Trace)], Clause: clause}
	x.Obls = append(x.Obls, o)
}

// failHard records an obligation that cannot hold (syntactic failure such as a lockset violation).
func (x *Exec) failHard(st *State, kind, name string, pos token.Pos, note string) {
	full := x.V.P.FuncKey(x.Fn) + "#" + name
	// the obligation is "this point is unreachable"
	o := &Obligation{Name: full, Kind: kind, Func: x.V.P.FuncKey(x.Fn), Assumes: st.PC[:len(st.PC):len(st.PC)], Goal: False, Pos: x.V.P.Pos(pos), Trace: st.Trace[:len(st.Trace):len(st.Trace)], Note: note}
	x.Obls = append(x.Obls, o)
}

func (x *Exec) site(st *State, key string) int {
	st.CallCount[key]++
	return st.CallCount[key]
}

// ---- values of SSA operands ----

func (x *Exec) val(st *State, fr *Frame, v ssa.Value) *Val {
	switch c := v.(type) {
	case *ssa.Const:
		return x.constVal(c)
	case *ssa.Function:
		return x.funcVal(c)
	case *ssa.Global:
		return &Val{T: c.Type(), Glob: c}
	case *ssa.Builtin:
		return &Val{T: c.Type()}
	case *ssa.FreeVar:
		for i, fv := range fr.Fn.FreeVars {
			if fv == c {
				return fr.FreeVars[i]
			}
		}
		unsupportedf("free var %s not bound", c.Name())
	}
	if r, ok := fr.Regs[v]; ok {
		return r
	}
	unsupportedf("value %s (%T) has no binding in %s", v.Name(), v, fr.Fn.Name())
	return nil
}

func (x *Exec) funcVal(f *ssa.Function) *Val {
	t := UF("fn$"+f.String(), SInt)
	return &Val{T: f.Type(), Fn: f, Term: t}
}

func (x *Exec) constVal(c *ssa.Const) *Val {
	t := c.Type()
	if c.Value == nil {
		return zeroVal(t)
	}
	switch c.Value.Kind() {
	case constant.Bool:
		return &Val{T: t, Term: BoolLit(constant.BoolVal(c.Value))}
	case constant.String:
		return &Val{T: t, Term: StrLit(constant.StringVal(c.Value))}
	case constant.Int:
		if leafSort(t) == SReal {
			return &Val{T: t, Term: realLit(c.Value)}
		}
		if floatMode {
			return &Val{T: t, Term: fmConst(t, c.Value)}
		}
		return &Val{T: t, Term: BigLit(c.Value.ExactString())}
	case constant.Float:
		if floatMode {
			return &Val{T: t, Term: fmConst(t, c.Value)}
		}
		return &Val{T: t, Term: realLit(c.Value)}
	}
	unsupportedf("constant %s", c)
	return nil
}

// ---- main loop ----

func (x *Exec) run(init *State) {
	x.Work = []*State{init}
	for len(x.Work) > 0 {
		st := x.Work[len(x.Work)-1]
		x.Work = x.Work[:len(x.Work)-1]
		x.Paths++
		if x.Paths > x.MaxPaths {
			unsupportedf("path budget %d exceeded", x.MaxPaths)
		}
		for !st.Done {
			x.step(st)
		}
	}
}

func (x *Exec) fork(st *State) *State {
	n := st.Clone()
	x.Work = append(x.Work, n)
	return n
}

func (x *Exec) step(st *State) {
	fr := st.Top()
	if fr.Draining != 0 {
		x.drain(st, fr)
		return
	}
	if fr.Idx >= len(fr.Blk.Instrs) {
		unsupportedf("fell off block %d of %s", fr.Blk.Index, fr.Fn.Name())
	}
	in := fr.Blk.Instrs[fr.Idx]
	fr.Idx++
	x.instr(st, fr, in)
}

func (x *Exec) jump(st *State, fr *Frame, to *ssa.BasicBlock) {
	from := fr.Blk
	fr.Prev = from
	fr.Blk = to
	fr.Idx = 0
	// loop header?
	if len(st.Frames) >= 1 {
		if l := x.V.P.LoopAt(fr.Fn, to); l != nil {
			x.loopHead(st, fr, l, from)
		}
	}
}

func isNilCheckable(v *Val) bool { return v.Term != nil }

func (x *Exec) nilCheck(st *State, v *Val, what string, pos token.Pos) {
	if v.Cell != nil || v.FP != nil || v.EP != nil || v.Glob != nil {
		return
	}
	if v.Term == nil {
		return
	}
	if st.FreshRefs[v.Term.Op] {
		return
	}
	if x.mayPanic() {
		if Neq(v.Term, IntLit(0)).IsTrue() {
			return
		}
		ps := x.fork(st)
		ps.Assume(Eq(v.Term, IntLit(0)))
		pv := &Val{T: types.NewInterfaceType(nil, nil), Term: Fresh("panicval$nilderef", SInt)}
		x.startPanic(ps, pv, "nil dereference ("+what+") at "+x.V.P.Pos(pos))
		st.Assume(Neq(v.Term, IntLit(0)))
		return
	}
	k := x.site(st, "nil:"+what)
	x.oblige(st, "nopanic", fmt.Sprintf("nopanic:nil-deref@%s#%d", what, k), Neq(v.Term, IntLit(0)), pos, "")
	st.Assume(Neq(v.Term, IntLit(0)))
}

// mayPanic: the contract under verification declares that runtime panics (nil dereference) are
// behaviour to be modelled (forked into a panicking path), not obligations.
func (x *Exec) mayPanic() bool { return x.FC != nil && x.FC.Has("maypanic") }

func namedStruct(t types.Type) *types.Named {
	t = types.Unalias(t)
	if n, ok := t.(*types.Named); ok {
		if _, ok := n.Underlying().(*types.Struct); ok {
			return n
		}
	}
	return nil
}

func pointee(t types.Type) types.Type {
	if p, ok := t.Underlying().(*types.Pointer); ok {
		return p.Elem()
	}
	return nil
}

func (x *Exec) newCell(t types.Type, name string, site ssa.Instruction) *Cell {
	x.cellID++
	return &Cell{ID: x.cellID, T: t, Name: name, Site: site}
}

func (x *Exec) instr(st *State, fr *Frame, in ssa.Instruction) {
	switch i := in.(type) {
	case *ssa.DebugRef:
	case *ssa.Alloc:
		et := pointee(i.Type())
		if ns := namedStruct(et); ns != nil {
			ref := st.newRef(sanitize(ns.Obj().Name()))
			st.storePath(ns, ref, "", et, zeroVal(et))
			initWaitGroups(st, ns, ref)
			x.initGhostFields(st, ns, ref)
			st.FreshTypes = copyFreshTypes(st.FreshTypes)
			st.FreshTypes[ref.Op] = ns
			fr.Regs[i] = &Val{T: i.Type(), Term: ref}
			return
		}
		if at, ok := et.Underlying().(*types.Array); ok {
			base := st.newRef("arr")
			var ls []leafInfo
			leaves(at.Elem(), "", &ls)
			for _, l := range ls {
				key := sliceHeapKey(at.Elem(), l.Path)
				h := st.heapGet(key, ArrSort(SInt, ArrSort(SInt, l.Sort)))
				st.Heap[key] = Store(h, base, ConstArr(ArrSort(SInt, l.Sort), zeroLeaf(l.Sort)))
			}
			fr.Regs[i] = &Val{T: i.Type(), Term: base}
			return
		}
		var cell *Cell
		if len(st.Frames) == 1 {
			cell = x.cellOf[i]
			if cell == nil {
				cell = x.newCell(et, i.Comment, i)
				x.cellOf[i] = cell
			}
		} else {
			cell = x.newCell(et, i.Comment, i)
		}
		st.Cells[cell] = zeroVal(et)
		fr.Regs[i] = &Val{T: i.Type(), Cell: cell}
	case *ssa.Store:
		addr := x.val(st, fr, i.Addr)
		v := x.val(st, fr, i.Val)
		x.store(st, addr, v, i.Pos(), in)
	case *ssa.UnOp:
		xv := x.val(st, fr, i.X)
		switch i.Op {
		case token.MUL:
			fr.Regs[i] = x.load(st, xv, i.Pos(), in)
		case token.NOT:
			fr.Regs[i] = &Val{T: i.Type(), Term: Not(xv.Term)}
		case token.SUB:
			if floatMode {
				fr.Regs[i] = &Val{T: i.Type(), Term: fmNeg(xv.Term)}
				return
			}
			if xv.Term.Sort == SReal {
				fr.Regs[i] = &Val{T: i.Type(), Term: mk(kApp, "-", SReal, xv.Term)}
				return
			}
			fr.Regs[i] = &Val{T: i.Type(), Term: Sub(IntLit(0), xv.Term)}
		case token.ARROW:
			x.recv(st, fr, i, xv)
		case token.XOR:
			fr.Regs[i] = &Val{T: i.Type(), Term: UF("bitnot", SInt, xv.Term)}
		default:
			unsupportedf("unop %s", i.Op)
		}
	case *ssa.BinOp:
		fr.Regs[i] = x.binop(st, i, x.val(st, fr, i.X), x.val(st, fr, i.Y))
	case *ssa.FieldAddr:
		xv := x.val(st, fr, i.X)
		st0 := pointee(i.X.Type()).Underlying().(*types.Struct)
		f := st0.Field(i.Field)
		switch {
		case xv.FP != nil:
			fr.Regs[i] = &Val{T: i.Type(), FP: &FieldPtr{Base: xv.FP.Base, Root: xv.FP.Root, Path: append(append([]string{}, xv.FP.Path...), f.Name()), T: f.Type()}}
		case xv.EP != nil:
			fr.Regs[i] = &Val{T: i.Type(), EP: &ElemPtr{Base: xv.EP.Base, Idx: xv.EP.Idx, Elem: xv.EP.Elem, Path: append(append([]string{}, xv.EP.Path...), f.Name())}}
		case xv.Term != nil:
			ns := namedStruct(pointee(i.X.Type()))
			if ns == nil {
				unsupportedf("field address on pointer to unnamed struct %s", i.X.Type())
			}
			x.nilCheck(st, xv, "field:"+f.Name(), i.Pos())
			fr.Regs[i] = &Val{T: i.Type(), FP: &FieldPtr{Base: xv.Term, Root: ns, Path: []string{f.Name()}, T: f.Type()}}
		default:
			unsupportedf("FieldAddr on %s", xv)
		}
	case *ssa.Field:
		xv := x.val(st, fr, i.X)
		fr.Regs[i] = xv.Fields[i.Field]
		if fr.Regs[i].T == nil {
			fr.Regs[i].T = i.Type()
		}
	case *ssa.IndexAddr:
		xv := x.val(st, fr, i.X)
		idx := x.val(st, fr, i.Index)
		if pt := pointee(i.X.Type()); pt != nil {
			at := pt.Underlying().(*types.Array)
			k := x.site(st, "bounds")
			x.oblige(st, "nopanic", fmt.Sprintf("nopanic:index-in-range#%d", k), And(Ge(idx.Term, IntLit(0)), Lt(idx.Term, IntLit(at.Len()))), i.Pos(), "")
			fr.Regs[i] = &Val{T: i.Type(), EP: &ElemPtr{Base: xv.Term, Idx: idx.Term, Elem: at.Elem()}}
			return
		}
		sl, ok := i.X.Type().Underlying().(*types.Slice)
		if !ok {
			unsupportedf("IndexAddr on %s", i.X.Type())
		}
		k := x.site(st, "bounds")
		g := And(Ge(idx.Term, IntLit(0)), Lt(idx.Term, xv.Fields[1].Term))
		x.oblige(st, "nopanic", fmt.Sprintf("nopanic:index-in-range#%d", k), g, i.Pos(), "")
		st.Assume(g)
		fr.Regs[i] = &Val{T: i.Type(), EP: &ElemPtr{Base: xv.Fields[0].Term, Idx: idx.Term, Elem: sl.Elem()}}
	case *ssa.Index:
		xv := x.val(st, fr, i.X)
		idx := x.val(st, fr, i.Index)
		switch t := i.X.Type().Underlying().(type) {
		case *types.Basic: // string index
			fr.Regs[i] = &Val{T: i.Type(), Term: UF("str_at", SInt, xv.Term, idx.Term)}
		default:
			_ = t
			unsupportedf("Index on %s", i.X.Type())
		}
	case *ssa.Lookup:
		xv := x.val(st, fr, i.X)
		kv := x.val(st, fr, i.Index)
		mt, ok := i.X.Type().Underlying().(*types.Map)
		if !ok {
			fr.Regs[i] = &Val{T: i.Type(), Term: UF("str_at", SInt, xv.Term, kv.Term)}
			return
		}
		v, has := st.mapLookup(mt, xv.Term, x.keyTerm(kv))
		st.assumeValAllocated(v)
		if i.CommaOk {
			fr.Regs[i] = &Val{T: i.Type(), Fields: []*Val{v, {T: types.Typ[types.Bool], Term: has}}}
		} else {
			fr.Regs[i] = v
		}
	case *ssa.MapUpdate:
		mv := x.val(st, fr, i.Map)
		kv := x.val(st, fr, i.Key)
		vv := x.val(st, fr, i.Value)
		mt := i.Map.Type().Underlying().(*types.Map)
		if x.mayPanic() && !Neq(mv.Term, IntLit(0)).IsTrue() {
			ps := x.fork(st)
			ps.Assume(Eq(mv.Term, IntLit(0)))
			pv := &Val{T: types.NewInterfaceType(nil, nil), Term: Fresh("panicval$nilmap", SInt)}
			x.startPanic(ps, pv, "assignment to entry in nil map at "+x.V.P.Pos(i.Pos()))
		} else {
			k := x.site(st, "mapwrite")
			x.oblige(st, "nopanic", fmt.Sprintf("nopanic:nil-map-write#%d", k), Neq(mv.Term, IntLit(0)), i.Pos(), "")
		}
		st.Assume(Neq(mv.Term, IntLit(0)))
		st.mapStore(mt, mv.Term, x.keyTerm(kv), x.settle(st, vv))
	case *ssa.MakeMap:
		r := st.newRef("map")
		mt := i.Type().Underlying().(*types.Map)
		hk, _, _ := mapKeys(mt)
		ks := leafSort(mt.Key())
		h := st.heapGet(hk, ArrSort(SInt, ArrSort(ks, SBool)))
		st.Heap[hk] = Store(h, r, ConstArr(ArrSort(ks, SBool), False))
		_, lk, _ := mapKeys(mt)
		lh := st.heapGet(lk, ArrSort(SInt, SInt))
		st.Heap[lk] = Store(lh, r, IntLit(0))
		fr.Regs[i] = &Val{T: i.Type(), Term: r}
	case *ssa.MakeChan:
		r := st.newRef("chan")
		sz := x.val(st, fr, i.Size)
		st.setGhostArr("closed", Store(st.ghostArr("closed", SBool), r, False))
		st.setGhostArr("clen", Store(st.ghostArr("clen", SInt), r, IntLit(0)))
		st.setGhostArr("ccap", Store(st.ghostArr("ccap", SInt), r, sz.Term))
		co := False
		if x.FC != nil && len(st.Frames) == 1 {
			for _, cl := range x.FC.Of("ghost") {
				if strings.HasPrefix(cl.Text, "closeonly ") && storedInto(i, strings.TrimPrefix(cl.Text, "closeonly ")) {
					co = True // ghost mark: a channel that is only ever closed (every send site proves it is not one of these)
				}
			}
		}
		st.setGhostArr("closeonly", Store(st.ghostArr("closeonly", SBool), r, co))
		fr.Regs[i] = &Val{T: i.Type(), Term: r}
	case *ssa.MakeSlice:
		ln := x.val(st, fr, i.Len)
		sl := i.Type().Underlying().(*types.Slice)
		base := st.newRef("slice")
		var ls []leafInfo
		leaves(sl.Elem(), "", &ls)
		for _, l := range ls {
			key := sliceHeapKey(sl.Elem(), l.Path)
			h := st.heapGet(key, ArrSort(SInt, ArrSort(SInt, l.Sort)))
			st.Heap[key] = Store(h, base, ConstArr(ArrSort(SInt, l.Sort), zeroLeaf(l.Sort)))
		}
		k := x.site(st, "makeslice")
		x.oblige(st, "nopanic", fmt.Sprintf("nopanic:makeslice-len#%d", k), Ge(ln.Term, IntLit(0)), i.Pos(), "")
		fr.Regs[i] = &Val{T: i.Type(), Fields: []*Val{{Term: base}, {Term: ln.Term}}}
	case *ssa.Slice:
		x.sliceOp(st, fr, i)
	case *ssa.MakeInterface:
		fr.Regs[i] = x.makeInterface(st, x.val(st, fr, i.X), i.X.Type(), i.Type())
	case *ssa.ChangeInterface:
		v := x.val(st, fr, i.X)
		fr.Regs[i] = &Val{T: i.Type(), Term: v.Term}
	case *ssa.ChangeType:
		v := x.val(st, fr, i.X)
		nv := *v
		nv.T = i.Type()
		fr.Regs[i] = &nv
	case *ssa.Convert:
		fr.Regs[i] = x.convert(st, i, x.val(st, fr, i.X))
	case *ssa.TypeAssert:
		x.typeAssert(st, fr, i)
	case *ssa.Extract:
		t := x.val(st, fr, i.Tuple)
		v := t.Fields[i.Index]
		if v.T == nil {
			nv := *v
			nv.T = i.Type()
			v = &nv
		}
		fr.Regs[i] = v
	case *ssa.Phi:
		for k, p := range fr.Blk.Preds {
			if p == fr.Prev {
				fr.Regs[i] = x.val(st, fr, i.Edges[k])
				return
			}
		}
		unsupportedf("phi without matching predecessor")
	case *ssa.MakeClosure:
		fn := i.Fn.(*ssa.Function)
		clo := &Closure{Fn: fn}
		for _, b := range i.Bindings {
			clo.Bindings = append(clo.Bindings, x.val(st, fr, b))
		}
		r := st.newRef("closure")
		st.Closures[r.Op] = clo
		st.Assume(Eq(UF("closurefn", SInt, r), UF("fn$"+fn.String(), SInt)))
		for bi, b := range clo.Bindings {
			bv := b
			if b.Cell != nil {
				bv = st.Cells[b.Cell]
			}
			if bv != nil && bv.Term != nil && bv.Fields == nil && (bv.Term.Sort == SInt || bv.Term.Sort == SStr || bv.Term.Sort == SBool) {
				st.Assume(Eq(UF(closureVarFn(bi, bv.Term.Sort), bv.Term.Sort, r), bv.Term))
			}
		}
		fr.Regs[i] = &Val{T: i.Type(), Clo: clo, Term: r}
	case *ssa.Range:
		x.rangeInit(st, fr, i)
	case *ssa.Next:
		x.rangeNext(st, fr, i)
	case *ssa.If:
		c := x.val(st, fr, i.Cond).Term
		tb, fb := fr.Blk.Succs[0], fr.Blk.Succs[1]
		if c.IsTrue() {
			x.jump(st, fr, tb)
			return
		}
		if c.IsFalse() {
			x.jump(st, fr, fb)
			return
		}
		other := x.fork(st)
		other.Assume(Not(c))
		other.Trace = append(other.Trace, fmt.Sprintf("b%d:else", fr.Blk.Index))
		x.jump(other, other.Top(), fb)
		st.Assume(c)
		st.Trace = append(st.Trace, fmt.Sprintf("b%d:then", fr.Blk.Index))
		x.jump(st, fr, tb)
	case *ssa.Jump:
		x.jump(st, fr, fr.Blk.Succs[0])
	case *ssa.Return:
		var res []*Val
		for _, r := range i.Results {
			res = append(res, x.settle(st, x.val(st, fr, r)))
		}
		x.doReturn(st, fr, res, i.Pos())
	case *ssa.RunDefers:
		fr.Draining = 1
	case *ssa.Panic:
		v := x.val(st, fr, i.X)
		x.startPanic(st, v, "explicit panic at "+x.V.P.Pos(i.Pos()))
	case *ssa.Defer:
		d := &Deferred{Call: &i.Call, Instr: i}
		for _, a := range i.Call.Args {
			d.Args = append(d.Args, x.val(st, fr, a))
		}
		if !i.Call.IsInvoke() {
			d.Fn = x.val(st, fr, i.Call.Value)
		} else {
			d.Fn = x.val(st, fr, i.Call.Value)
		}
		fr.Defers = append(fr.Defers, d)
	case *ssa.Call:
		x.call(st, fr, i, &i.Call, i, false)
	case *ssa.Go:
		x.goStmt(st, fr, i)
	case *ssa.Send:
		x.send(st, fr, i)
	case *ssa.Select:
		x.selectStmt(st, fr, i)
	default:
		unsupportedf("instruction %T (%s)", in, in)
	}
}

// settle: values stored into the heap lose Go-side metadata except what can be recovered.
func (x *Exec) settle(st *State, v *Val) *Val { return v }

func (x *Exec) keyTerm(k *Val) *Term {
	if k.Term == nil {
		unsupportedf("map key of compound type")
	}
	return k.Term
}

// ---- loads and stores ----

func (x *Exec) load(st *State, p *Val, pos token.Pos, in ssa.Instruction) *Val {
	switch {
	case p.Cell != nil:
		v, ok := st.Cells[p.Cell]
		if !ok {
			unsupportedf("load from dead cell %s", p.Cell.Name)
		}
		return v
	case p.FP != nil:
		x.guardCheck(st, p.FP, false, pos)
		v := st.loadPath(p.FP.Root, p.FP.Base, strings.Join(p.FP.Path, "."), p.FP.T)
		st.assumeValAllocated(v)
		return x.recoverMeta(st, v)
	case p.EP != nil:
		if len(p.EP.Path) > 0 {
			ev := st.loadElem(p.EP.Elem, p.EP.Base, p.EP.Idx)
			return subVal(ev, p.EP.Elem, p.EP.Path)
		}
		v := st.loadElem(p.EP.Elem, p.EP.Base, p.EP.Idx)
		st.assumeValAllocated(v)
		return x.recoverMeta(st, v)
	case p.Glob != nil:
		return x.loadGlobal(st, p.Glob)
	case p.Term != nil:
		et := pointee(p.T)
		if et == nil {
			unsupportedf("load through non-pointer %s", p.T)
		}
		x.nilCheck(st, p, "load", pos)
		if ns := namedStruct(et); ns != nil {
			return st.loadPath(ns, p.Term, "", et)
		}
		// boxed non-struct pointee
		var ls []leafInfo
		leaves(et, "", &ls)
		ts := make([]*Term, len(ls))
		for k, l := range ls {
			h := st.heapGet("B$"+typeName(et)+"$"+l.Path, ArrSort(SInt, l.Sort))
			ts[k] = Select(h, p.Term)
		}
		k := 0
		v := unflatten(et, ts, &k)
		st.assumeValAllocated(v)
		return v
	}
	unsupportedf("load from %s", p)
	return nil
}

func subVal(v *Val, t types.Type, path []string) *Val {
	for _, f := range path {
		stt := t.Underlying().(*types.Struct)
		found := false
		for i := 0; i < stt.NumFields(); i++ {
			if stt.Field(i).Name() == f {
				v = v.Fields[i]
				t = stt.Field(i).Type()
				if v.T == nil {
					nv := *v
					nv.T = t
					v = &nv
				}
				found = true
				break
			}
		}
		if !found {
			unsupportedf("no field %s", f)
		}
	}
	return v
}

func setSubVal(v *Val, t types.Type, path []string, nv *Val) *Val {
	if len(path) == 0 {
		return nv
	}
	stt := t.Underlying().(*types.Struct)
	out := &Val{T: v.T, Fields: append([]*Val{}, v.Fields...)}
	for i := 0; i < stt.NumFields(); i++ {
		if stt.Field(i).Name() == path[0] {
			out.Fields[i] = setSubVal(v.Fields[i], stt.Field(i).Type(), path[1:], nv)
			return out
		}
	}
	unsupportedf("no field %s", path[0])
	return nil
}

// recoverMeta re-attaches closure metadata when the loaded term is a known closure reference.
func (x *Exec) recoverMeta(st *State, v *Val) *Val {
	if v.Term != nil && v.Term.Kind == kConst {
		if c, ok := st.Closures[v.Term.Op]; ok {
			nv := *v
			nv.Clo = c
			return &nv
		}
	}
	return v
}

func (x *Exec) store(st *State, p *Val, v *Val, pos token.Pos, in ssa.Instruction) {
	switch {
	case p.Cell != nil:
		st.Cells[p.Cell] = v
	case p.FP != nil:
		if tc := x.V.C.Types[typeName(p.FP.Root)]; tc != nil && !st.FreshRefs[p.FP.Base.Op] {
			for _, m := range tc.Monitors {
				if m.CloseOnly[p.FP.Path[0]] {
					x.failHard(st, "guarded", fmt.Sprintf("guarded:%s:never-reassigned#%d", p.FP.Path[0], x.site(st, "reassign:"+p.FP.Path[0])), pos, "store to "+tc.Name+"."+p.FP.Path[0]+", declared never to be reassigned once shared")
				}
			}
		}
		x.guardCheck(st, p.FP, true, pos)
		if tc := x.V.C.Types[typeName(p.FP.Root)]; tc != nil && len(p.FP.Path) == 1 && tc.SetOnce[p.FP.Path[0]] && !st.FreshRefs[p.FP.Base.Op] {
			// a set-once field: the store leaves the zero value or rewrites the same value
			oldv := st.loadPath(p.FP.Root, p.FP.Base, p.FP.Path[0], p.FP.T)
			newv := x.toHeapVal(st, v, p.FP.T)
			if oldv != nil && oldv.Term != nil && newv != nil && newv.Term != nil {
				zero := IntLit(0)
				if oldv.Term.Sort == SBool {
					zero = False
				}
				k := x.site(st, "setonce:"+p.FP.Path[0])
				x.oblige(st, "setonce", fmt.Sprintf("setonce:%s.%s-is-never-taken-back@store#%d", tc.Name, p.FP.Path[0], k), Or(Eq(oldv.Term, zero), Eq(newv.Term, oldv.Term)), pos, "setonce "+p.FP.Path[0])
			}
		}
		st.storePath(p.FP.Root, p.FP.Base, strings.Join(p.FP.Path, "."), p.FP.T, x.toHeapVal(st, v, p.FP.T))
		x.checkStrong(st, p.FP.Root, p.FP.Base, "store:"+p.FP.Path[0], pos)
		if !st.FreshRefs[p.FP.Base.Op] && x.objInvMentions(p.FP.Root, p.FP.Path[0]) {
			x.checkObjInvs(st, p.FP.Root, p.FP.Base, "store:"+p.FP.Path[0], pos)
		}
	case p.EP != nil:
		if len(p.EP.Path) > 0 {
			ev := st.loadElem(p.EP.Elem, p.EP.Base, p.EP.Idx)
			st.storeElem(p.EP.Elem, p.EP.Base, p.EP.Idx, setSubVal(ev, p.EP.Elem, p.EP.Path, x.toHeapVal(st, v, nil)))
			return
		}
		st.storeElem(p.EP.Elem, p.EP.Base, p.EP.Idx, x.toHeapVal(st, v, p.EP.Elem))
	case p.Glob != nil:
		x.storeGlobal(st, p.Glob, v)
	case p.Term != nil:
		et := pointee(p.T)
		x.nilCheck(st, p, "store", pos)
		if ns := namedStruct(et); ns != nil {
			st.storePath(ns, p.Term, "", et, x.toHeapVal(st, v, et))
			return
		}
		var ls []leafInfo
		leaves(et, "", &ls)
		var ts []*Term
		flatten(x.toHeapVal(st, v, et), &ts)
		for k, l := range ls {
			key := "B$" + typeName(et) + "$" + l.Path
			h := st.heapGet(key, ArrSort(SInt, l.Sort))
			st.Heap[key] = Store(h, p.Term, ts[k])
		}
	default:
		unsupportedf("store to %s", p)
	}
}

// toHeapVal converts Go-side pointer values into reference terms where possible.
func (x *Exec) toHeapVal(st *State, v *Val, t types.Type) *Val {
	if v.Term != nil || (v.Fields != nil && v.Cell == nil && v.FP == nil) {
		if v.Fields != nil {
			out := &Val{T: v.T, Fields: []*Val{}}
			for _, f := range v.Fields {
				out.Fields = append(out.Fields, x.toHeapVal(st, f, nil))
			}
			return out
		}
		return v
	}
	if v.FP != nil {
		return &Val{T: v.T, Term: fpAddr(v.FP)}
	}
	if v.Cell != nil {
		unsupportedf("pointer to local variable %s escapes into the heap", v.Cell.Name)
	}
	if v.Glob != nil {
		return &Val{T: v.T, Term: UF("globaddr$"+v.Glob.String(), SInt)}
	}
	unsupportedf("cannot store %s into the heap", v)
	return nil
}

// fpAddr: the address of a field as a reference term (identity only; used for locks, waitgroups).
// initGhostFields: the declared ghost fields of a fresh object start at their zero value.
func (x *Exec) initGhostFields(st *State, ns *types.Named, ref *Term) {
	tc := x.V.C.Types[typeName(ns)]
	if tc == nil {
		return
	}
	var names []string
	for n := range tc.GhostFields {
		names = append(names, n)
	}
	sort.Strings(names)
	for _, n := range names {
		srt, _ := x.V.ghostFieldSort(ns, n)
		key := heapKeyField(ns, "#"+n)
		h := st.heapGet(key, ArrSort(SInt, srt))
		st.Heap[key] = Store(h, ref, zeroLeaf(srt))
	}
}

func copyFreshTypes(m map[string]*types.Named) map[string]*types.Named {
	n := map[string]*types.Named{}
	for k, v := range m {
		n[k] = v
	}
	return n
}

// initWaitGroups: the zero value of a sync.WaitGroup (the object itself or a direct field of a fresh struct) counts 0.
func initWaitGroups(st *State, ns *types.Named, ref *Term) {
	zero := func(r *Term) {
		st.setGhostArr("wg", Store(st.ghostArr("wg", SInt), r, IntLit(0)))
		st.setGhostArr("wgmine", Store(st.ghostArr("wgmine", SInt), r, IntLit(0)))
	}
	if typeName(ns) == "sync.WaitGroup" {
		zero(ref)
		return
	}
	stt, ok := ns.Underlying().(*types.Struct)
	if !ok {
		return
	}
	for k := 0; k < stt.NumFields(); k++ {
		f := stt.Field(k)
		if typeName(f.Type()) == "sync.WaitGroup" {
			zero(fpAddr(&FieldPtr{Base: ref, Root: ns, Path: []string{f.Name()}, T: f.Type()}))
		}
	}
}

func fpAddr(fp *FieldPtr) *Term {
	return UF("addr$"+typeName(fp.Root)+"$"+strings.Join(fp.Path, "."), SInt, fp.Base)
}

func globKey(g *ssa.Global, path string) string {
	return "V$" + g.Pkg.Pkg.Name() + "." + g.Name() + "$" + path
}

func (x *Exec) loadGlobal(st *State, g *ssa.Global) *Val {
	et := pointee(g.Type())
	var ls []leafInfo
	leaves(et, "", &ls)
	ts := make([]*Term, len(ls))
	for k, l := range ls {
		ts[k] = st.heapGet(globKey(g, l.Path), l.Sort)
	}
	k := 0
	v := unflatten(et, ts, &k)
	st.assumeValAllocated(v)
	return v
}

func (x *Exec) storeGlobal(st *State, g *ssa.Global, v *Val) {
	et := pointee(g.Type())
	var ls []leafInfo
	leaves(et, "", &ls)
	var ts []*Term
	flatten(x.toHeapVal(st, v, et), &ts)
	for k, l := range ls {
		st.heapGet(globKey(g, l.Path), l.Sort)
		st.Heap[globKey(g, l.Path)] = ts[k]
	}
}

// ---- arithmetic ----

const (
	minInt64 = "-9223372036854775808"
	maxInt64 = "9223372036854775807"
)

func inInt64(t *Term) *Term {
	return And(Ge(t, BigLit(minInt64)), Le(t, BigLit(maxInt64)))
}

func isIntType(t types.Type) bool {
	b, ok := t.Underlying().(*types.Basic)
	return ok && b.Info()&types.IsInteger != 0
}

func isUnsigned(t types.Type) bool {
	b, ok := t.Underlying().(*types.Basic)
	return ok && b.Info()&types.IsUnsigned != 0
}

func intRange(t types.Type) (lo, hi string) {
	b := t.Underlying().(*types.Basic)
	switch b.Kind() {
	case types.Int8:
		return "-128", "127"
	case types.Int16:
		return "-32768", "32767"
	case types.Int32:
		return "-2147483648", "2147483647"
	case types.Uint8:
		return "0", "255"
	case types.Uint16:
		return "0", "65535"
	case types.Uint32:
		return "0", "4294967295"
	case types.Uint64, types.Uint, types.Uintptr:
		return "0", "18446744073709551615"
	}
	return minInt64, maxInt64
}

func (x *Exec) binop(st *State, i *ssa.BinOp, a, b *Val) *Val {
	rt := i.Type()
	if floatMode && a.Term != nil && (a.Term.Sort == SBV64 || a.Term.Sort == SF64) {
		return x.fmBinop(st, i, a, b)
	}
	switch i.Op {
	case token.EQL:
		return &Val{T: rt, Term: valEq(a, b)}
	case token.NEQ:
		return &Val{T: rt, Term: Not(valEq(a, b))}
	}
	if a.Term == nil || b.Term == nil {
		unsupportedf("binop %s on compound values", i.Op)
	}
	at, bt := a.Term, b.Term
	switch at.Sort {
	case SInt:
		switch i.Op {
		case token.ADD, token.SUB, token.MUL:
			var r *Term
			switch i.Op {
			case token.ADD:
				r = Add(at, bt)
			case token.SUB:
				r = Sub(at, bt)
			default:
				r = Mul(at, bt)
			}
			if isIntType(i.X.Type()) {
				lo, hi := intRange(i.X.Type())
				k := x.site(st, "ovf")
				g := And(Ge(r, BigLit(lo)), Le(r, BigLit(hi)))
				x.oblige(st, "nooverflow", fmt.Sprintf("nooverflow:%s#%d", opName(i.Op), k), g, i.Pos(), "")
				st.Assume(g)
			}
			return &Val{T: rt, Term: r}
		case token.QUO:
			k := x.site(st, "div")
			x.oblige(st, "nopanic", fmt.Sprintf("nopanic:div-by-zero#%d", k), Neq(bt, IntLit(0)), i.Pos(), "")
			st.Assume(Neq(bt, IntLit(0)))
			r := Div(at, bt)
			x.divAxioms(st, at, bt, r)
			return &Val{T: rt, Term: r}
		case token.REM:
			k := x.site(st, "div")
			x.oblige(st, "nopanic", fmt.Sprintf("nopanic:div-by-zero#%d", k), Neq(bt, IntLit(0)), i.Pos(), "")
			st.Assume(Neq(bt, IntLit(0)))
			return &Val{T: rt, Term: Mod(at, bt)}
		case token.LSS:
			return &Val{T: rt, Term: Lt(at, bt)}
		case token.LEQ:
			return &Val{T: rt, Term: Le(at, bt)}
		case token.GTR:
			return &Val{T: rt, Term: Gt(at, bt)}
		case token.GEQ:
			return &Val{T: rt, Term: Ge(at, bt)}
		case token.AND, token.OR, token.XOR, token.SHL, token.SHR, token.AND_NOT:
			return &Val{T: rt, Term: UF("bit_"+opName(i.Op), SInt, at, bt)}
		}
	case SBool:
		switch i.Op {
		case token.AND, token.LAND:
			return &Val{T: rt, Term: And(at, bt)}
		case token.OR, token.LOR:
			return &Val{T: rt, Term: Or(at, bt)}
		}
	case SStr:
		switch i.Op {
		case token.ADD:
			return &Val{T: rt, Term: UF("str_concat", SStr, at, bt)}
		case token.LSS:
			return &Val{T: rt, Term: UF("str_lt", SBool, at, bt)}
		case token.GTR:
			return &Val{T: rt, Term: UF("str_lt", SBool, bt, at)}
		case token.LEQ:
			return &Val{T: rt, Term: Not(UF("str_lt", SBool, bt, at))}
		case token.GEQ:
			return &Val{T: rt, Term: Not(UF("str_lt", SBool, at, bt))}
		}
	case SReal:
		switch i.Op {
		case token.ADD:
			return &Val{T: rt, Term: mk(kApp, "+", SReal, at, bt)}
		case token.SUB:
			return &Val{T: rt, Term: mk(kApp, "-", SReal, at, bt)}
		case token.MUL:
			return &Val{T: rt, Term: mk(kApp, "*", SReal, at, bt)}
		case token.QUO:
			return &Val{T: rt, Term: UF("real_div", SReal, at, bt)}
		case token.LSS:
			return &Val{T: rt, Term: mk(kApp, "<", SBool, at, bt)}
		case token.LEQ:
			return &Val{T: rt, Term: mk(kApp, "<=", SBool, at, bt)}
		case token.GTR:
			return &Val{T: rt, Term: mk(kApp, ">", SBool, at, bt)}
		case token.GEQ:
			return &Val{T: rt, Term: mk(kApp, ">=", SBool, at, bt)}
		}
	}
	unsupportedf("binop %s on sort %s", i.Op, at.Sort)
	return nil
}

func (x *Exec) divAxioms(st *State, a, b, r *Term) {
	// Go truncated division for the common non-negative case
	st.Assume(Implies(And(Ge(a, IntLit(0)), Gt(b, IntLit(0))), And(Le(Mul(b, r), a), Lt(a, Add(Mul(b, r), b)), Ge(r, IntLit(0)))))
}

func opName(op token.Token) string {
	switch op {
	case token.ADD:
		return "add"
	case token.SUB:
		return "sub"
	case token.MUL:
		return "mul"
	case token.AND:
		return "and"
	case token.OR:
		return "or"
	case token.XOR:
		return "xor"
	case token.SHL:
		return "shl"
	case token.SHR:
		return "shr"
	case token.AND_NOT:
		return "andnot"
	}
	return op.String()
}

func valEq(a, b *Val) *Term {
	if a.Term != nil && b.Term != nil && a.Fields == nil && b.Fields == nil {
		return Eq(a.Term, b.Term)
	}
	if a.Cell != nil || b.Cell != nil {
		if a.Cell != nil && b.Cell != nil {
			return BoolLit(a.Cell == b.Cell)
		}
		// cell pointer vs nil constant
		return False
	}
	if a.FP != nil || b.FP != nil {
		if a.FP != nil && b.FP != nil {
			return Eq(fpAddr(a.FP), fpAddr(b.FP))
		}
		return False
	}
	if len(a.Fields) != len(b.Fields) {
		unsupportedf("comparison of incompatible values")
	}
	var cs []*Term
	for i := range a.Fields {
		cs = append(cs, valEq(a.Fields[i], b.Fields[i]))
	}
	return And(cs...)
}

// ---- conversions, interfaces ----

var typeIDs = map[string]int{}

func typeID(t types.Type) *Term {
	n := typeName(t)
	id, ok := typeIDs[n]
	if !ok {
		id = len(typeIDs) + 1
		typeIDs[n] = id
	}
	return IntLit(int64(id))
}

func dynType(v *Term) *Term { return UF("dyntype", SInt, v) }

type boxSig struct {
	TypeID *Term
	Paths  []string
	Sorts  []Sort
	TName  string
}

var boxRegistry = map[string]*boxSig{}

// storedInto: the value is stored into the local variable of that name.
func storedInto(v ssa.Value, name string) bool {
	if v.Referrers() == nil {
		return false
	}
	for _, r := range *v.Referrers() {
		if s, ok := r.(*ssa.Store); ok && s.Val == v {
			if a, ok := s.Addr.(*ssa.Alloc); ok && a.Comment == name {
				return true
			}
		}
	}
	return false
}

// boxTerm builds the interface value holding v (of static type `from`). The axioms of box terms
// (non-nil, dynamic type, unboxing) are added per ground occurrence when a query is printed.
func boxTerm(ts []*Term, from types.Type) *Term {
	tn := typeName(from)
	name := smtName("box$" + tn)
	if _, ok := boxRegistry[name]; !ok {
		var ls []leafInfo
		leaves(from, "", &ls)
		bs := &boxSig{TypeID: typeID(from), TName: tn}
		for _, l := range ls {
			bs.Paths = append(bs.Paths, l.Path)
			bs.Sorts = append(bs.Sorts, l.Sort)
		}
		boxRegistry[name] = bs
	}
	if len(ts) == 0 {
		return UF("box$"+tn, SInt)
	}
	return UF("box$"+tn, SInt, ts...)
}

// boxAxioms returns the ground axioms for every box term occurring in ts.
func boxAxioms(ts []*Term) []*Term {
	var out []*Term
	seen := map[*Term]bool{}
	done := map[string]bool{}
	var walk func(t *Term)
	walk = func(t *Term) {
		if seen[t] {
			return
		}
		seen[t] = true
		for _, a := range t.Args {
			walk(a)
		}
		if (t.Kind == kUF || t.Kind == kConst) && !t.hasBV {
			if bs, ok := boxRegistry[t.Op]; ok && !done[t.Key()] {
				done[t.Key()] = true
				out = append(out, Gt(t, IntLit(0)), Eq(dynType(t), bs.TypeID))
				for k := range bs.Paths {
					if k < len(t.Args) {
						out = append(out, Eq(UF("unbox$"+bs.TName+"$"+bs.Paths[k], bs.Sorts[k], t), t.Args[k]))
					}
				}
			}
		}
	}
	for _, t := range ts {
		walk(t)
	}
	return out
}

func (x *Exec) makeInterface(st *State, v *Val, from types.Type, to types.Type) *Val {
	if _, isIface := from.Underlying().(*types.Interface); isIface {
		return &Val{T: to, Term: v.Term}
	}
	if v.Cell != nil {
		// pointer to a local variable passed as an interface (e.g. json.Unmarshal(data, &local)): the
		// pointer keeps its identity; only modelled library functions may receive it
		b := boxTerm([]*Term{UF(fmt.Sprintf("celladdr$%d", v.Cell.ID), SInt)}, from)
		st.Assume(Gt(b, IntLit(0)))
		return &Val{T: to, Term: b, Cell: v.Cell}
	}
	var ts []*Term
	fv := x.toHeapVal(st, v, from)
	flatten(fv, &ts)
	b := boxTerm(ts, from)
	st.Assume(Gt(b, IntLit(0)))
	out := &Val{T: to, Term: b}
	if v.Clo != nil {
		out.Clo = v.Clo
	}
	return out
}

func (x *Exec) typeAssert(st *State, fr *Frame, i *ssa.TypeAssert) {
	v := x.val(st, fr, i.X)
	at := i.AssertedType
	var ok *Term
	var res *Val
	if _, isIface := at.Underlying().(*types.Interface); isIface {
		if types.AssignableTo(i.X.Type(), at) {
			ok = Neq(v.Term, IntLit(0))
		} else {
			// whether a value implements an interface is a function of its dynamic type
			f := UF("implements$"+sanitize(typeName(at)), SBool, dynType(v.Term))
			ok = And(Neq(v.Term, IntLit(0)), f)
		}
		res = &Val{T: at, Term: v.Term}
	} else {
		tn := typeName(at)
		ok = And(Neq(v.Term, IntLit(0)), Eq(dynType(v.Term), typeID(at)))
		var ls []leafInfo
		leaves(at, "", &ls)
		ts := make([]*Term, len(ls))
		for k, l := range ls {
			ts[k] = UF("unbox$"+tn+"$"+l.Path, l.Sort, v.Term)
		}
		k := 0
		res = unflatten(at, ts, &k)
	}
	if i.CommaOk {
		z := zeroVal(at)
		fr.Regs[i] = &Val{T: i.Type(), Fields: []*Val{iteVal(ok, res, z), {T: types.Typ[types.Bool], Term: ok}}}
		return
	}
	k := x.site(st, "typeassert")
	x.oblige(st, "nopanic", fmt.Sprintf("nopanic:type-assert#%d", k), ok, i.Pos(), "")
	st.Assume(ok)
	fr.Regs[i] = res
}

func (x *Exec) convert(st *State, i *ssa.Convert, v *Val) *Val {
	from, to := i.X.Type(), i.Type()
	if floatMode {
		return x.fmConvert(st, i, v)
	}
	fb, fok := from.Underlying().(*types.Basic)
	tb, tok := to.Underlying().(*types.Basic)
	if fok && tok {
		switch {
		case fb.Info()&types.IsInteger != 0 && tb.Info()&types.IsInteger != 0:
			lo, hi := intRange(to)
			flo, fhi := intRange(from)
			if (lo == flo && hi == fhi) || (lo == minInt64 && hi == maxInt64 && !isUnsigned(from)) {
				return &Val{T: to, Term: v.Term}
			}
			// value-preserving when in range; otherwise wraps: model as UF unless provably in range
			inr := And(Ge(v.Term, BigLit(lo)), Le(v.Term, BigLit(hi)))
			w := UF("wrap$"+tb.Name(), SInt, v.Term)
			st.Assume(And(Ge(w, BigLit(lo)), Le(w, BigLit(hi))))
			return &Val{T: to, Term: Ite(inr, v.Term, w)}
		case fb.Info()&types.IsString != 0 && tb.Info()&types.IsString != 0:
			return &Val{T: to, Term: v.Term}
		case fb.Info()&types.IsInteger != 0 && tb.Info()&types.IsFloat != 0:
			x.note("float64 arithmetic is treated as exact real arithmetic (rounding not modelled)")
			return &Val{T: to, Term: toReal(v.Term)}
		case fb.Info()&types.IsFloat != 0 && tb.Info()&types.IsInteger != 0:
			x.note("float64 arithmetic is treated as exact real arithmetic (rounding not modelled)")
			tr := truncReal(v.Term)
			lo, hi := intRange(to)
			inr := And(Ge(tr, BigLit(lo)), Le(tr, BigLit(hi)))
			w := UF("float2int$outofrange", SInt, v.Term)
			st.Assume(And(Ge(w, BigLit(lo)), Le(w, BigLit(hi))))
			return &Val{T: to, Term: Ite(inr, tr, w)}
		case fb.Info()&types.IsFloat != 0 && tb.Info()&types.IsFloat != 0:
			return &Val{T: to, Term: v.Term}
		case fb.Info()&types.IsInteger != 0 && tb.Info()&types.IsString != 0:
			return &Val{T: to, Term: UF("rune2str", SStr, v.Term)}
		}
	}
	// string <-> []byte
	if fok && fb.Info()&types.IsString != 0 {
		if sl, ok := to.Underlying().(*types.Slice); ok {
			base := st.newRef("bytes")
			ln := UF("strlen", SInt, v.Term)
			st.Assume(Ge(ln, IntLit(0)))
			key := sliceHeapKey(sl.Elem(), "")
			h := st.heapGet(key, ArrSort(SInt, ArrSort(SInt, SInt)))
			arr := UF("str_bytes", ArrSort(SInt, SInt), v.Term)
			st.Heap[key] = Store(h, base, arr)
			return &Val{T: to, Fields: []*Val{{Term: base}, {Term: ln}}}
		}
	}
	if tok && tb.Info()&types.IsString != 0 {
		if sl, ok := from.Underlying().(*types.Slice); ok {
			key := sliceHeapKey(sl.Elem(), "")
			h := st.heapGet(key, ArrSort(SInt, ArrSort(SInt, SInt)))
			s := UF("bytes_str", SStr, Select(h, v.Fields[0].Term), v.Fields[1].Term)
			return &Val{T: to, Term: s}
		}
	}
	unsupportedf("conversion %s -> %s", from, to)
	return nil
}

// ---- slices ----

func (x *Exec) sliceOp(st *State, fr *Frame, i *ssa.Slice) {
	xv := x.val(st, fr, i.X)
	var lo, hi *Term
	if i.Low != nil {
		lo = x.val(st, fr, i.Low).Term
	}
	if i.High != nil {
		hi = x.val(st, fr, i.High).Term
	}
	if i.Max != nil {
		unsupportedf("3-index slice")
	}
	if pt := pointee(i.X.Type()); pt != nil { // pointer to array
		at := pt.Underlying().(*types.Array)
		if lo != nil {
			if v, ok := lo.IntVal(); !ok || v != 0 {
				unsupportedf("array slice with non-zero low bound")
			}
		}
		ln := IntLit(at.Len())
		if hi != nil {
			ln = hi
		}
		fr.Regs[i] = &Val{T: i.Type(), Fields: []*Val{{Term: xv.Term}, {Term: ln}}}
		return
	}
	switch t := i.X.Type().Underlying().(type) {
	case *types.Slice:
		base, ln := xv.Fields[0].Term, xv.Fields[1].Term
		if hi == nil {
			hi = ln
		}
		lowZero := lo == nil
		if lo != nil {
			if v, ok := lo.IntVal(); ok && v == 0 {
				lowZero = true
			}
		}
		if lo == nil {
			lo = IntLit(0)
		}
		k := x.site(st, "slicebounds")
		capT := UF("cap$slice", SInt, base, ln)
		st.Assume(Ge(capT, ln))
		g := And(Ge(lo, IntLit(0)), Le(lo, hi), Le(hi, capT))
		// conservative: require hi <= len unless provable otherwise (cap is abstract)
		x.oblige(st, "nopanic", fmt.Sprintf("nopanic:slice-bounds#%d", k), And(Ge(lo, IntLit(0)), Le(lo, hi), Le(hi, ln)), i.Pos(), "")
		_ = g
		if lowZero {
			fr.Regs[i] = &Val{T: i.Type(), Fields: []*Val{{Term: base}, {Term: hi}}}
			return
		}
		nb := st.newRef("subslice")
		var ls []leafInfo
		leaves(t.Elem(), "", &ls)
		for _, l := range ls {
			key := sliceHeapKey(t.Elem(), l.Path)
			h := st.heapGet(key, ArrSort(SInt, ArrSort(SInt, l.Sort)))
			A := Fresh("sub$"+sanitize(l.Path), ArrSort(SInt, l.Sort))
			j := BoundVar("j", SInt)
			st.Assume(Forall([]*Term{j}, Implies(And(Ge(j, IntLit(0)), Lt(j, Sub(hi, lo))), Eq(Select(A, j), Select(Select(h, base), Add(j, lo))))))
			st.Heap[key] = Store(h, nb, A)
		}
		x.note("sub-slicing with a non-zero low bound yields a fresh backing array (aliasing with the original not modelled)")
		fr.Regs[i] = &Val{T: i.Type(), Fields: []*Val{{Term: nb}, {Term: Sub(hi, lo)}}}
	case *types.Basic:
		if lo == nil {
			lo = IntLit(0)
		}
		if hi == nil {
			hi = UF("strlen", SInt, xv.Term)
		}
		fr.Regs[i] = &Val{T: i.Type(), Term: UF("substr", SStr, xv.Term, lo, hi)}
	default:
		unsupportedf("slice of %s", i.X.Type())
	}
}

// appendOp models append(s, t...) with a fresh backing array.
func (x *Exec) appendOp(st *State, s, t *Val, typ types.Type) *Val {
	sl := typ.Underlying().(*types.Slice)
	var ls []leafInfo
	leaves(sl.Elem(), "", &ls)
	sb, slen := s.Fields[0].Term, s.Fields[1].Term
	if t.Term != nil && t.Fields == nil { // append([]byte, string...) form
		unsupportedf("append of string to byte slice")
	}
	tb, tlen := t.Fields[0].Term, t.Fields[1].Term
	nb := st.newRef("append")
	if n, ok := tlen.IntVal(); ok && n <= 4 {
		for _, l := range ls {
			key := sliceHeapKey(sl.Elem(), l.Path)
			h := st.heapGet(key, ArrSort(SInt, ArrSort(SInt, l.Sort)))
			inner := Select(h, sb)
			for j := int64(0); j < n; j++ {
				inner = Store(inner, Add(slen, IntLit(j)), Select(Select(h, tb), IntLit(j)))
			}
			st.Heap[key] = Store(h, nb, inner)
		}
		return &Val{T: typ, Fields: []*Val{{Term: nb}, {Term: Add(slen, tlen)}}}
	}
	for _, l := range ls {
		key := sliceHeapKey(sl.Elem(), l.Path)
		h := st.heapGet(key, ArrSort(SInt, ArrSort(SInt, l.Sort)))
		A := Fresh("app$"+sanitize(l.Path), ArrSort(SInt, l.Sort))
		j := BoundVar("j", SInt)
		st.Assume(Forall([]*Term{j}, Implies(And(Ge(j, IntLit(0)), Lt(j, slen)), Eq(Select(A, j), Select(Select(h, sb), j)))))
		j2 := BoundVar("j", SInt)
		st.Assume(Forall([]*Term{j2}, Implies(And(Ge(j2, IntLit(0)), Lt(j2, tlen)), Eq(Select(A, Add(slen, j2)), Select(Select(h, tb), j2)))))
		st.Heap[key] = Store(h, nb, A)
	}
	st.Assume(Ge(tlen, IntLit(0)))
	return &Val{T: typ, Fields: []*Val{{Term: nb}, {Term: Add(slen, tlen)}}}
}

func realLit(v constant.Value) *Term {
	r := constant.ToFloat(v)
	num := constant.Num(r)
	den := constant.Denom(r)
	ns, ds := num.ExactString(), den.ExactString()
	neg := false
	if strings.HasPrefix(ns, "-") {
		neg = true
		ns = ns[1:]
	}
	t := "(/ " + ns + ".0 " + ds + ".0)"
	if ds == "1" {
		t = ns + ".0"
	}
	if neg {
		t = "(- " + t + ")"
	}
	return mk(kLit, t, SReal)
}

func toReal(t *Term) *Term { return mk(kApp, "to_real", SReal, t) }

// truncReal: conversion float -> integer truncates toward zero.
func truncReal(t *Term) *Term {
	zero := mk(kLit, "0.0", SReal)
	return Ite(mk(kApp, ">=", SBool, t, zero), mk(kApp, "to_int", SInt, t), Sub(IntLit(0), mk(kApp, "to_int", SInt, mk(kApp, "-", SReal, t))))
}
