package main

import (
	"runtime/debug"
	"runtime/pprof"
	"flag"
	"fmt"
	"os"
	"sort"
	"strings"
	"time"
)

func envOr(k, d string) string {
	if v := os.Getenv(k); v != "" {
		return v
	}
	return d
}

var allPatterns = []string{"./message/...", "./pubsub/...", "./components/...", "./internal/..."}

func main() {
	if len(os.Args) < 2 {
		fmt.Fprintln(os.Stderr, "usage: gowp verify|check|lock|list ...")
		os.Exit(2)
	}
	debug.SetGCPercent(600) // term graphs are large and long-lived: trade memory for less collector work
	if pf := os.Getenv("GOWP_PROF"); pf != "" {
		f, _ := os.Create(pf)
		pprof.StartCPUProfile(f)
		defer pprof.StopCPUProfile()
	}
	switch os.Args[1] {
	case "verify":
		cmdVerify(os.Args[2:])
	case "sweep":
		v, err := loadAll(envOr("VERIF_REPO", "/repo"), allPatterns)
		if err != nil {
			os.Exit(2)
		}
		debugSweep(v)
	case "list":
		v, err := loadAll(envOr("VERIF_REPO", "/repo"), allPatterns)
		if err != nil {
			fmt.Fprintln(os.Stderr, err)
			os.Exit(2)
		}
		var ks []string
		for k := range v.P.Funcs {
			ks = append(ks, k)
		}
		sort.Strings(ks)
		for _, k := range ks {
			fmt.Println(k)
		}
	case "check":
		cmdCheck(os.Args[2:])
	default:
		fmt.Fprintln(os.Stderr, "unknown command", os.Args[1])
		os.Exit(2)
	}
}

func loadAll(repo string, patterns []string) (*Verifier, error) {
	t0 := time.Now()
	p, err := LoadProgram(repo, patterns)
	if err != nil {
		return nil, err
	}
	c, err := LoadContracts(repo)
	if err != nil {
		return nil, err
	}
	if err := c.loadExtra(envOr("VERIF_DIR", "/verif") + "/contracts"); err != nil {
		return nil, err
	}
	fmt.Fprintf(os.Stderr, "loaded %d functions, %d contracts in %.1fs\n", len(p.Funcs), len(c.Funcs), time.Since(t0).Seconds())
	return NewVerifier(p, c), nil
}

// gowp verify [-repo DIR] [-v] [-timeout N] FUNCKEY...
func cmdVerify(args []string) {
	fs := flag.NewFlagSet("verify", flag.ExitOnError)
	repo := fs.String("repo", envOr("VERIF_REPO", "/repo"), "repository")
	verbose := fs.Bool("v", false, "verbose")
	timeout := fs.Int("timeout", 10, "per-obligation timeout (s)")
	pats := fs.String("pkgs", "", "package patterns (comma separated)")
	dump := fs.Bool("dump", false, "keep smt files and print their names")
	fs.Parse(args)
	patterns := allPatterns
	if *pats != "" {
		patterns = strings.Split(*pats, ",")
	}
	v, err := loadAll(*repo, patterns)
	if err != nil {
		fmt.Fprintln(os.Stderr, "error:", err)
		os.Exit(2)
	}
	keys := fs.Args()
	if len(keys) == 0 {
		for k := range v.C.Funcs {
			keys = append(keys, k)
		}
		sort.Strings(keys)
	}
	bad := 0
	os.RemoveAll(envOr("VERIF_OUT", "/verif/out") + "/smt/dev") // scratch of earlier dev runs
	for _, k := range keys {
		t0 := time.Now()
		r := v.VerifyFunc(k)
		d := &Discharger{Dir: envOr("VERIF_OUT", "/verif/out") + "/smt/dev", Timeout: *timeout}
		d.Run(r.Obls)
		nd, nf := 0, 0
		for _, o := range r.Obls {
			if o.Status == "discharged" {
				nd++
			} else {
				nf++
			}
		}
		cst, cfail := v.runCanaries([]*FuncResult{r}, envOr("VERIF_OUT", "/verif/out")+"/smt/dev/canary", 100)
		fmt.Printf("%s: %d obligations, %d discharged, %d not; paths=%d exits=%d gen+solve=%.1fs canaries=%v\n", k, len(r.Obls), nd, nf, r.Paths, r.Exits, time.Since(t0).Seconds(), cst)
		if cfail != "" {
			fmt.Printf("  VACUOUS: %s\n", cfail)
			bad++
		}
		if r.Unsupported != "" {
			fmt.Printf("  UNSUPPORTED: %s\n", r.Unsupported)
			bad++
		}
		for _, o := range r.Obls {
			if o.Status != "discharged" || *verbose {
				fmt.Printf("  [%s] %s (%s %.2fs) %s\n", o.Status, o.Name, o.Backend, o.Time, o.Pos)
				if *dump && *verbose && o.Status == "discharged" && o.Note != "" {
					fmt.Printf("      file: %s\n", o.Note)
				}
				if o.Status != "discharged" {
					bad++
					fmt.Printf("      trace: %s\n", strings.Join(o.Trace, " > "))
					if *dump {
						fmt.Printf("      file: %s\n", o.Note)
					}
					if o.Status == "failed" && *verbose {
						fmt.Printf("      model: %s\n", trunc(o.Model, 1500))
					}
				}
			}
		}
		if *verbose {
			for _, n := range r.Notes {
				fmt.Printf("  note: %s\n", n)
			}
		}
	}
	if bad > 0 {
		os.Exit(1)
	}
}

func trunc(s string, n int) string {
	if len(s) > n {
		return s[:n] + "…"
	}
	return s
}

func init() {
	debugSweep = func(v *Verifier) {
		v.sweep()
		for k, why := range v.escapingChanFields {
			fmt.Println("escaping", k, why)
		}
	}
}

var debugSweep func(v *Verifier)
