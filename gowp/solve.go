package main

// Solver portfolio: z3 4.8.12, z3-new 5.1.0, cvc5 1.0 raced per obligation.

import (
	"bytes"
	"context"
	"crypto/sha1"
	"fmt"
	"os"
	"os/exec"
	"path/filepath"
	"runtime"
	"strings"
	"sync"
	"time"
)

type solverSpec struct {
	Name string
	Bin  string
	Args func(file string, timeout int) []string
}

var solvers = []solverSpec{
	{"z3-5.1.0", "z3-new", func(f string, t int) []string { return []string{"-smt2", fmt.Sprintf("-T:%d", t), f} }},
	{"z3-4.8.12", "/usr/bin/z3", func(f string, t int) []string { return []string{"-smt2", fmt.Sprintf("-T:%d", t), f} }},
	{"cvc5-1.0", "cvc5", func(f string, t int) []string {
		return []string{"--lang=smt2", fmt.Sprintf("--tlimit=%d", t*1000), f}
	}},
}

type solveResult struct {
	Answer  string // unsat | sat | unknown
	Backend string
	Time    float64
	Output  string
}

func runSolver(ctx context.Context, s solverSpec, file string, timeout int) solveResult {
	start := time.Now()
	cctx, cancel := context.WithTimeout(ctx, time.Duration(timeout+2)*time.Second)
	defer cancel()
	cmd := exec.CommandContext(cctx, s.Bin, s.Args(file, timeout)...)
	var out bytes.Buffer
	cmd.Stdout = &out
	cmd.Stderr = &out
	cmd.Run()
	el := time.Since(start).Seconds()
	text := out.String()
	first := strings.TrimSpace(strings.SplitN(text, "\n", 2)[0])
	ans := "unknown"
	switch first {
	case "unsat":
		ans = "unsat"
	case "sat":
		ans = "sat"
	}
	return solveResult{Answer: ans, Backend: s.Name, Time: el, Output: text}
}

// race runs all solvers on the file; first definitive answer wins. In "all" mode every solver is run to
// completion and disagreement is reported.
func race(file string, timeout int, all bool) (solveResult, []solveResult) {
	ctx, cancel := context.WithCancel(context.Background())
	defer cancel()
	ch := make(chan solveResult, len(solvers))
	for _, s := range solvers {
		s := s
		go func() { ch <- runSolver(ctx, s, file, timeout) }()
	}
	var results []solveResult
	var winner *solveResult
	for range solvers {
		r := <-ch
		results = append(results, r)
		if winner == nil && (r.Answer == "unsat" || r.Answer == "sat") {
			w := r
			winner = &w
			if !all {
				cancel()
				break
			}
		}
	}
	if winner == nil {
		return solveResult{Answer: "unknown", Backend: "none", Output: summarize(results)}, results
	}
	return *winner, results
}

func summarize(rs []solveResult) string {
	var b strings.Builder
	for _, r := range rs {
		first := strings.TrimSpace(strings.SplitN(r.Output, "\n", 2)[0])
		fmt.Fprintf(&b, "%s: %s (%.2fs) ", r.Backend, first, r.Time)
	}
	return b.String()
}

type Discharger struct {
	Dir     string
	Timeout int
	All     bool
	mu      sync.Mutex
	Stats   map[string]int
	SolverTime float64
	MaxTime float64
	Disagreements []string
	InstTimeout int
	DeferCand bool // an undecided obligation with only a candidate counterexample goes through the retry pass before it counts as failed
	retrying  bool
}

func (d *Discharger) Run(obls []*Obligation) {
	os.MkdirAll(d.Dir, 0o755)
	d.Stats = map[string]int{}
	par := runtime.NumCPU() / 3
	if par < 2 {
		par = 2
	}
	sem := make(chan struct{}, par)
	var wg sync.WaitGroup
	for _, o := range obls {
		if o.Status != "" {
			d.mu.Lock()
			d.Stats[o.Backend]++
			d.mu.Unlock()
			continue
		}
		wg.Add(1)
		sem <- struct{}{}
		go func(o *Obligation) {
			defer wg.Done()
			defer func() { <-sem }()
			d.one(o)
		}(o)
	}
	wg.Wait()
}

// Retry re-runs undecided obligations with little parallelism and a longer limit: an "unknown" that is only
// a time-out under machine load must not become an alarm. A retried obligation that discharges is noted as such.
func (d *Discharger) Retry(obls []*Obligation, factor int, skip func(*Obligation) bool) int {
	var todo []*Obligation
	for _, o := range obls {
		if o.Status == "unknown" && o.Kind != "cover" && !strings.HasPrefix(o.Note, "VC size") {
			if o.Cand && skip != nil && skip(o) {
				o.Status = "failed"
				continue
			}
			todo = append(todo, o)
		}
	}
	if len(todo) == 0 {
		return 0
	}
	d.retrying = true
	defer func() { d.retrying = false }()
	saved := d.Timeout
	d.Timeout = saved * factor
	d.InstTimeout = 5 * factor
	sem := make(chan struct{}, 3)
	var wg sync.WaitGroup
	for _, o := range todo {
		wg.Add(1)
		sem <- struct{}{}
		go func(o *Obligation) {
			defer wg.Done()
			defer func() { <-sem }()
			o.Status, o.Model, o.Cand = "", "", false
			d.one(o)
			if o.Status == "discharged" {
				o.Backend += "+retry"
			}
		}(o)
	}
	wg.Wait()
	d.Timeout = saved
	d.InstTimeout = 0
	return len(todo)
}

// caseCover: the case is infeasible after the callee's postconditions only if it already was before.
// Answers come from finitely instantiated queries: their "unsat" is a proof of infeasibility, their "sat" only a
// candidate, which is all a vacuity guard needs.
func (d *Discharger) caseCover(o *Obligation) {
	run := func(assumes []*Term, tag string) string {
		d.mu.Lock()
		as := assumes
		if ax := boxAxioms(as); len(ax) > 0 {
			as = append(as[:len(as):len(as)], ax...)
		}
		if ax := closureAxioms(as); len(ax) > 0 {
			as = append(as[:len(as):len(as)], ax...)
		}
		ia, ig, any := instantiate(as, False)
		if !any {
			ia, ig = as, False
		}
		text := (&Query{Name: o.Name + " [" + tag + "]", Assumes: ia, Goal: ig, AbstractRec: true}).SMTText(true)
		d.mu.Unlock()
		if len(text) > 400_000 {
			return "unknown"
		}
		h := sha1.Sum([]byte(text))
		file := filepath.Join(d.Dir, fmt.Sprintf("%x.cover.smt2", h[:8]))
		os.WriteFile(file, []byte(text), 0o644)
		r, _ := race(file, 3, false)
		d.mu.Lock()
		d.SolverTime += r.Time
		d.mu.Unlock()
		o.Note = file
		return r.Answer
	}
	o.Status = "discharged"
	o.Backend = "cover"
	if run(o.Assumes, "case after the call") == "unsat" {
		if run(o.Before, "case before the call") != "unsat" {
			o.Status = "failed"
			o.Model = "the case '" + o.Clause + "' is possible before the call but impossible after assuming the callee's postconditions: the contract constrains state the call does not modify (vacuity)"
		}
	}
	d.mu.Lock()
	d.Stats[o.Backend]++
	d.mu.Unlock()
}

func (d *Discharger) one(o *Obligation) {
	if o.Kind == "casecover" {
		d.caseCover(o)
		return
	}
	d.mu.Lock()
	if ax := boxAxioms(append(append([]*Term{}, o.Assumes...), o.Goal)); len(ax) > 0 {
		o.Assumes = append(o.Assumes[:len(o.Assumes):len(o.Assumes)], ax...)
	}
	if ax := closureAxioms(append(append([]*Term{}, o.Assumes...), o.Goal)); len(ax) > 0 {
		o.Assumes = append(o.Assumes[:len(o.Assumes):len(o.Assumes)], ax...)
	}
	q := &Query{Name: o.Name, Assumes: o.Assumes, Goal: o.Goal}
	text := q.SMTText(true)
	var itext string
	if o.Kind != "cover" {
		if ia, ig, any := instantiate(o.Assumes, o.Goal); any {
			iq := &Query{Name: o.Name + " [finite instantiation]", Assumes: ia, Goal: ig, AbstractRec: true}
			itext = iq.SMTText(true)
		}
	}
	d.mu.Unlock()
	h := sha1.Sum([]byte(text))
	file := filepath.Join(d.Dir, fmt.Sprintf("%x.smt2", h[:8]))
	os.WriteFile(file, []byte(text), 0o644)
	var cand *solveResult
	if os.Getenv("GOWP_DEBUG_INST") != "" {
		fmt.Fprintf(os.Stderr, "inst %s: full=%d inst=%d\n", o.Name, len(text), len(itext))
		if len(itext) >= 400_000 {
			os.WriteFile(fmt.Sprintf("/tmp/big-%d.smt2", len(itext)), []byte(itext), 0o644)
		}
	}
	if itext != "" && len(itext) < 400_000 {
		ifile := filepath.Join(d.Dir, fmt.Sprintf("%x.inst.smt2", h[:8]))
		os.WriteFile(ifile, []byte(itext), 0o644)
		it := 5
		if d.InstTimeout > 0 {
			it = d.InstTimeout
		}
		ir, _ := race(ifile, it, false)
		d.mu.Lock()
		d.SolverTime += ir.Time
		d.mu.Unlock()
		if ir.Answer == "unsat" {
			o.Status = "discharged"
			o.Backend = ir.Backend + "+inst"
			o.Time = ir.Time
			o.Note = ifile
			d.mu.Lock()
			d.Stats[o.Backend]++
			d.mu.Unlock()
			return
		}
		if ir.Answer == "sat" {
			c := ir
			cand = &c
		}
	}
	if len(text) > 400_000 {
		o.Status = "unknown"
		o.Note = fmt.Sprintf("VC size %d exceeds the 400 kB cap", len(text))
		return
	}
	tmo := d.Timeout
	if cand != nil && !d.All && tmo > 4 && !d.retrying {
		tmo = 4 // a candidate counterexample exists already; do not wait long for the full query
	}
	r, all := race(file, tmo, d.All)
	o.Backend = r.Backend
	o.Time = r.Time
	d.mu.Lock()
	d.SolverTime += r.Time
	if r.Time > d.MaxTime {
		d.MaxTime = r.Time
	}
	if d.All {
		sawSat, sawUnsat := false, false
		for _, x := range all {
			if x.Answer == "sat" {
				sawSat = true
			}
			if x.Answer == "unsat" {
				sawUnsat = true
			}
		}
		if sawSat && sawUnsat {
			d.Disagreements = append(d.Disagreements, o.Name+": "+summarize(all))
		}
	}
	d.mu.Unlock()
	o.Note = file
	if o.Kind == "cover" {
		// must be satisfiable
		switch r.Answer {
		case "sat":
			o.Status = "discharged"
		case "unsat":
			o.Status = "failed"
			o.Model = "precondition is contradictory (vacuous contract)"
		default:
			o.Status = "discharged" // undecided cover: not a proof obligation
			o.Backend = "cover-undecided"
		}
		d.mu.Lock()
		d.Stats[o.Backend]++
		d.mu.Unlock()
		return
	}
	switch r.Answer {
	case "unsat":
		o.Status = "discharged"
	case "sat":
		o.Status = "failed"
		o.Model = r.Output
	default:
		if cand != nil {
			o.Status = "failed"
			if d.DeferCand && !d.retrying {
				// a time-out of the full query under machine load must not become an alarm: the retry pass decides
				o.Status = "unknown"
				o.Cand = true
			}
			o.Backend = cand.Backend + "+inst"
			o.Model = "; candidate counterexample from the finitely instantiated query (the full query was undecided)\n" + cand.Output
		} else {
			o.Status = "unknown"
			o.Model = r.Output
		}
	}
	d.mu.Lock()
	d.Stats[o.Backend]++
	d.mu.Unlock()
}
