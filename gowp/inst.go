package main

import (
	"sort"
	"strings"
)

// Finite instantiation of quantified assumptions.
// Replacing an assumption (forall x. P x) by the conjunction of P t over finitely many ground terms t
// weakens the hypotheses, so "unsat" for the instantiated query is a valid proof of the original
// obligation, while "sat" only yields a candidate counterexample (confirmed by the full query / replay).

func skolemizeGoal(g *Term) *Term {
	switch {
	case g.Kind == kQuant && g.Op == "forall":
		m := map[string]*Term{}
		for _, v := range g.Bound {
			m[v.Op] = Fresh("sk$"+trimName(v.Op), v.Sort)
		}
		return skolemizeGoal(Subst(g.Args[0], m))
	case g.Kind == kApp && g.Op == "and":
		var cs []*Term
		for _, a := range g.Args {
			cs = append(cs, skolemizeGoal(a))
		}
		return And(cs...)
	case g.Kind == kApp && g.Op == "=>":
		return Implies(g.Args[0], skolemizeGoal(g.Args[1]))
	}
	return g
}

func trimName(s string) string {
	out := []rune{}
	for _, c := range s {
		if c == '?' || c == '|' {
			break
		}
		out = append(out, c)
	}
	return string(out)
}

func groundIndexTerms(ts []*Term) map[Sort][]*Term {
	out := map[Sort][]*Term{}
	seenStr := map[string]bool{}
	seen := map[*Term]bool{}
	add := func(t *Term) {
		if t.hasBV {
			return
		}
		s := t.String()
		if seenStr[s] {
			return
		}
		seenStr[s] = true
		out[t.Sort] = append(out[t.Sort], t)
	}
	var walk func(t *Term)
	walk = func(t *Term) {
		if seen[t] {
			return
		}
		seen[t] = true
		if t.Kind == kApp && (t.Op == "select" || t.Op == "store") {
			add(t.Args[1])
		}
		if t.Kind == kConst && (t.Sort == SInt || t.Sort == SStr) {
			add(t)
		}
		for _, a := range t.Args {
			walk(a)
		}
	}
	for _, t := range ts {
		walk(t)
	}
	return out
}

// instantiate returns the weakened assumption list (nil if nothing was quantified).
func instantiate(assumes []*Term, goal *Term) ([]*Term, *Term, bool) {
	g2 := skolemizeGoal(goal)
	any := g2 != goal
	all := append(append([]*Term{}, assumes...), g2)
	if uf := unfoldRec(all, 2); len(uf) > 0 {
		assumes = append(append([]*Term{}, assumes...), uf...)
		all = append(all, uf...)
		any = true
	}
	cands := groundIndexTerms(all)
	occs := collectSelOccs(all)
	inst := func(q *Term) []*Term {
		if r, ok := instForallTriggers(q, occs, cands); ok {
			return r // no matching ground term means no instance is relevant
		}
		return instForall(q, cands)
	}
	var out []*Term
	for _, a := range assumes {
		if a.Kind == kQuant && a.Op == "forall" {
			any = true
			out = append(out, inst(a)...)
			continue
		}
		if a.Kind == kApp && a.Op == "and" {
			changed := false
			for _, c := range a.Args {
				if c.Kind == kQuant && c.Op == "forall" {
					out = append(out, inst(c)...)
					changed = true
				} else {
					out = append(out, c)
				}
			}
			if changed {
				any = true
			}
			continue
		}
		out = append(out, a)
	}
	// existentials: skolemize the assumed ones, try the resulting constants (and every other ground
	// index term) as witnesses for the goal's
	var sks []*Term
	for i, a := range out {
		out[i] = skolemizePositive(a, &sks)
	}
	if hasExists(g2) {
		for _, c := range sks {
			cands[c.Sort] = append(cands[c.Sort], c)
		}
		// also arithmetic neighbours of select indices (x+1) appear as ground terms already
		g3 := witnessGoal(g2, cands)
		if g3 != g2 {
			g2 = g3
			any = true
		}
	}
	return out, g2, any
}

func hasExists(t *Term) bool {
	if t.Kind == kQuant && t.Op == "exists" {
		return true
	}
	for _, a := range t.Args {
		if hasExists(a) {
			return true
		}
	}
	return false
}

// trigger-based instantiation: a quantified variable that occurs as a select index is instantiated with
// the ground indices of selects on the same heap family (same nesting) occurring in the query.
type selOcc struct {
	fam  string
	sort Sort
	idx  []*Term // indices from the outermost array inwards
}

func selChain(t *Term) (*Term, []*Term) {
	// select(select(A, i), j) -> A, [i, j]; stores on intermediate arrays are looked through:
	// select(store(select(A, i), k, v), j) is (also) a read of A at [i, j]
	var idx []*Term
	for {
		for t.Kind == kApp && t.Op == "store" && len(idx) > 0 {
			t = t.Args[0]
		}
		if t.Kind == kApp && t.Op == "select" {
			idx = append([]*Term{t.Args[1]}, idx...)
			t = t.Args[0]
			continue
		}
		break
	}
	return t, idx
}

func collectSelOccs(ts []*Term) []selOcc {
	var out []selOcc
	seen := map[*Term]bool{}
	dedup := map[string]bool{}
	var walk func(t *Term, under bool)
	walk = func(t *Term, under bool) {
		if seen[t] && !under {
			return
		}
		seen[t] = true
		if t.Kind == kApp && t.Op == "select" && !t.hasBV {
			a, idx := selChain(t)
			key := familyOf(a) + "|" + string(a.Sort)
			for _, i := range idx {
				key += "|" + i.String()
			}
			if !dedup[key] {
				dedup[key] = true
				out = append(out, selOcc{familyOf(a), a.Sort, idx})
			}
		}
		for _, a := range t.Args {
			walk(a, false)
		}
	}
	for _, t := range ts {
		walk(t, false)
	}
	return out
}

func instForallTriggers(q *Term, occs []selOcc, cands map[Sort][]*Term) ([]*Term, bool) {
	bound := map[string]int{}
	for i, v := range q.Bound {
		bound[v.Op] = i
	}
	// find trigger selects in the body: chains whose indices are exactly bound variables
	type trig struct {
		fam  string
		sort Sort
		vars []int // bound var position per index level, -1 = ground/other
		gidx []*Term
		offs []*Term // per level: ground offset c when the index is (c + x); the match yields x = t - c
	}
	var trigs []trig
	seen := map[*Term]bool{}
	var walk func(t *Term)
	walk = func(t *Term) {
		if seen[t] {
			return
		}
		seen[t] = true
		if t.Kind == kApp && t.Op == "select" && t.hasBV {
			a, idx := selChain(t)
			if !a.hasBV {
				tr := trig{fam: familyOf(a), sort: a.Sort}
				okT := false
				for _, i := range idx {
					if i.Kind == kBound {
						if p, ok := bound[i.Op]; ok {
							tr.vars = append(tr.vars, p)
							tr.gidx = append(tr.gidx, nil)
							tr.offs = append(tr.offs, nil)
							okT = true
							continue
						}
					}
					// index (c + x) or (x + c) with c ground
					if i.Kind == kApp && i.Op == "+" && len(i.Args) == 2 && i.Sort == SInt {
						var bv, off *Term
						if i.Args[0].Kind == kBound && !i.Args[1].hasBV {
							bv, off = i.Args[0], i.Args[1]
						} else if i.Args[1].Kind == kBound && !i.Args[0].hasBV {
							bv, off = i.Args[1], i.Args[0]
						}
						if bv != nil {
							if p, ok := bound[bv.Op]; ok {
								tr.vars = append(tr.vars, p)
								tr.gidx = append(tr.gidx, nil)
								tr.offs = append(tr.offs, off)
								okT = true
								continue
							}
						}
					}
					if i.hasBV {
						okT = false
						tr.vars = nil
						break
					}
					tr.vars = append(tr.vars, -1)
					tr.gidx = append(tr.gidx, i)
					tr.offs = append(tr.offs, nil)
				}
				if okT && tr.vars != nil {
					trigs = append(trigs, tr)
				}
			}
		}
		for _, a := range t.Args {
			walk(a)
		}
	}
	walk(q.Args[0])
	if len(trigs) == 0 {
		return nil, false
	}
	// assignments from matching occurrences
	var res []*Term
	done := map[string]bool{}
	emit := func(asg []*Term) {
		if len(res) >= 400 {
			return
		}
		m := map[string]*Term{}
		key := ""
		for i, v := range q.Bound {
			if asg[i] == nil {
				return
			}
			m[v.Op] = asg[i]
			key += asg[i].String() + "|"
		}
		if done[key] {
			return
		}
		done[key] = true
		b := Subst(q.Args[0], m)
		if !b.IsTrue() {
			res = append(res, b)
		}
	}
	for _, tr := range trigs {
		covers := map[int]bool{}
		for _, p := range tr.vars {
			if p >= 0 {
				covers[p] = true
			}
		}
		for _, oc := range occs {
			if oc.sort != tr.sort || len(oc.idx) < len(tr.vars) {
				continue
			}
			if tr.fam != "" && oc.fam != "" && tr.fam != oc.fam {
				continue
			}
			asg := make([]*Term, len(q.Bound))
			okM := true
			for lvl, p := range tr.vars {
				if p >= 0 {
					val := oc.idx[lvl]
					if lvl < len(tr.offs) && tr.offs[lvl] != nil {
						val = Sub(val, tr.offs[lvl])
					}
					if asg[p] != nil && !same(asg[p], val) {
						okM = false
						break
					}
					asg[p] = val
				}
			}
			if !okM {
				continue
			}
			// remaining variables: from other triggers' matches is too costly; use small candidate sets
			var missing []int
			for i := range q.Bound {
				if asg[i] == nil {
					missing = append(missing, i)
				}
			}
			if len(missing) == 0 {
				emit(asg)
				continue
			}
			if len(missing) == 1 {
				cs := cands[q.Bound[missing[0]].Sort]
				if len(cs) > 24 {
					cs = cs[:24]
				}
				for _, c := range cs {
					a2 := append([]*Term{}, asg...)
					a2[missing[0]] = c
					emit(a2)
				}
			}
		}
	}
	return res, true
}

func instForall(q *Term, cands map[Sort][]*Term) []*Term {
	var res []*Term
	const limit = 600
	var rec func(i int, m map[string]*Term)
	rec = func(i int, m map[string]*Term) {
		if len(res) >= limit {
			return
		}
		if i == len(q.Bound) {
			b := Subst(q.Args[0], m)
			if !b.IsTrue() {
				res = append(res, b)
			}
			return
		}
		v := q.Bound[i]
		cs := cands[v.Sort]
		if len(cs) > 48 {
			cs = cs[:48]
		}
		for _, c := range cs {
			m[v.Op] = c
			rec(i+1, m)
		}
		delete(m, v.Op)
	}
	rec(0, map[string]*Term{})
	return res
}

// closureAxioms: the entry heap is closed under allocation — an object allocated at entry stores only
// nil or references allocated at entry in its reference-typed fields (added per entry family used).
func closureAxioms(ts []*Term) []*Term {
	var out []*Term
	seen := map[*Term]bool{}
	done := map[string]bool{}
	alloc0 := Const("G$alloc@0", ArrSort(SInt, SBool))
	var walk func(t *Term)
	walk = func(t *Term) {
		if seen[t] {
			return
		}
		seen[t] = true
		for _, a := range t.Args {
			walk(a)
		}
		if t.Kind == kConst && strings.HasSuffix(strings.Trim(t.Op, "|"), "@0") && !done[t.Op] {
			fam := strings.TrimSuffix(strings.Trim(t.Op, "|"), "@0")
			if heapRefFam[fam] && t.Sort == ArrSort(SInt, SInt) {
				done[t.Op] = true
				r := BoundVar("r", SInt)
				out = append(out, Forall([]*Term{r}, Implies(Select(alloc0, r), Or(Eq(Select(t, r), IntLit(0)), And(Gt(Select(t, r), IntLit(0)), Select(alloc0, Select(t, r)))))))
			} else if heapRefFam[fam] && strings.HasPrefix(string(t.Sort), "(Array Int (Array ") && strings.HasSuffix(string(t.Sort), " Int))") {
				// containers (map values, slice elements) of an allocated container are nil or allocated
				done[t.Op] = true
				_, inner := arrParts(t.Sort)
				ks, _ := arrParts(inner)
				r := BoundVar("r", SInt)
				k := BoundVar("k", ks)
				e := Select(Select(t, r), k)
				out = append(out, Forall([]*Term{r, k}, Implies(Select(alloc0, r), Or(Eq(e, IntLit(0)), And(Gt(e, IntLit(0)), Select(alloc0, e))))))
			}
		}
	}
	for _, t := range ts {
		walk(t)
	}
	// function identities: non-nil and pairwise distinct
	var fns []*Term
	fseen := map[string]bool{}
	for t := range seen {
		if t.Kind == kConst && t.Sort == SInt && strings.HasPrefix(strings.Trim(t.Op, "|"), "fn$") && !fseen[t.Op] {
			fseen[t.Op] = true
			fns = append(fns, t)
		}
	}
	sort.Slice(fns, func(i, j int) bool { return fns[i].Op < fns[j].Op })
	for i, f := range fns {
		out = append(out, Gt(f, IntLit(0)))
		for _, g := range fns[i+1:] {
			out = append(out, Neq(f, g))
		}
	}
	return out
}

// unfoldRec: one-step unfolding equations f(args) = body[args] for the ground applications of recursive
// spec functions occurring in ts (used where the definitions themselves are abstracted away).
func unfoldRec(ts []*Term, rounds int) []*Term {
	var out []*Term
	done := map[string]bool{}
	cur := ts
	for r := 0; r < rounds; r++ {
		var apps []*Term
		seen := map[*Term]bool{}
		var walk func(t *Term)
		walk = func(t *Term) {
			if seen[t] {
				return
			}
			seen[t] = true
			for _, a := range t.Args {
				walk(a)
			}
			if t.Kind == kUF && !t.hasBV {
				if _, ok := recDefBodies[t.Op]; ok && !done[t.String()] {
					done[t.String()] = true
					apps = append(apps, t)
				}
			}
		}
		for _, t := range cur {
			walk(t)
		}
		if len(apps) == 0 {
			break
		}
		var eqs []*Term
		for _, a := range apps {
			params := recDefParams[a.Op]
			if len(params) != len(a.Args) {
				continue
			}
			m := map[string]*Term{}
			for i, p := range params {
				m[p.Op] = a.Args[i]
			}
			eqs = append(eqs, Eq(a, Subst(recDefBodies[a.Op], m)))
		}
		out = append(out, eqs...)
		cur = eqs
	}
	return out
}

// skolemizePositive replaces existential quantifiers at positive positions of a closed formula by fresh
// constants (equisatisfiable); the constants are returned so that they can serve as witnesses elsewhere.
func skolemizePositive(t *Term, consts *[]*Term) *Term {
	switch {
	case t.Kind == kQuant && t.Op == "exists" && !freeBound(t):
		m := map[string]*Term{}
		for _, v := range t.Bound {
			c := Fresh("sk$"+trimName(v.Op), v.Sort)
			m[v.Op] = c
			*consts = append(*consts, c)
		}
		return skolemizePositive(Subst(t.Args[0], m), consts)
	case t.Kind == kApp && t.Op == "and":
		var cs []*Term
		for _, a := range t.Args {
			cs = append(cs, skolemizePositive(a, consts))
		}
		return And(cs...)
	case t.Kind == kApp && t.Op == "=>" && !t.hasBV:
		return Implies(t.Args[0], skolemizePositive(t.Args[1], consts))
	}
	return t
}

// witnessGoal replaces existential quantifiers at positive positions of the goal by the finite
// disjunction over candidate witnesses (a stronger goal: proving it proves the original).
func witnessGoal(g *Term, cands map[Sort][]*Term) *Term {
	switch {
	case g.Kind == kQuant && g.Op == "exists" && !freeBound(g):
		var alts []*Term
		var rec func(i int, m map[string]*Term)
		rec = func(i int, m map[string]*Term) {
			if len(alts) >= 300 {
				return
			}
			if i == len(g.Bound) {
				alts = append(alts, witnessGoal(Subst(g.Args[0], m), cands))
				return
			}
			cs := cands[g.Bound[i].Sort]
			if len(cs) > 40 {
				cs = cs[len(cs)-40:]
			}
			for _, c := range cs {
				m[g.Bound[i].Op] = c
				rec(i+1, m)
			}
			delete(m, g.Bound[i].Op)
		}
		rec(0, map[string]*Term{})
		if len(alts) == 0 {
			return g
		}
		return Or(alts...)
	case g.Kind == kApp && g.Op == "and":
		var cs []*Term
		for _, a := range g.Args {
			cs = append(cs, witnessGoal(a, cands))
		}
		return And(cs...)
	case g.Kind == kApp && g.Op == "=>" && !g.hasBV:
		return Implies(g.Args[0], witnessGoal(g.Args[1], cands))
	}
	return g
}
