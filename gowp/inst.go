package main

import "strings"

// Finite instantiation of quantified assumptions.
// Replacing an assumption (forall x. P x) by the conjunction of P t over finitely many ground terms t
// weakens the hypotheses, so "unsat" for the instantiated query is a valid proof of the original
// obligation, while "sat" only yields a candidate counterexample (confirmed by the full query / replay).

func skolemizeGoal(g *Term) *Term {
	switch {
	case g.Kind == kQuant && g.Op == "forall":
		m := map[string]*Term{}
		for _, v := range g.Bound {
			m[v.Op] = Fresh("sk$"+trimName(v.Op), v.Sort)
		}
		return skolemizeGoal(Subst(g.Args[0], m))
	case g.Kind == kApp && g.Op == "and":
		var cs []*Term
		for _, a := range g.Args {
			cs = append(cs, skolemizeGoal(a))
		}
		return And(cs...)
	case g.Kind == kApp && g.Op == "=>":
		return Implies(g.Args[0], skolemizeGoal(g.Args[1]))
	}
	return g
}

func trimName(s string) string {
	out := []rune{}
	for _, c := range s {
		if c == '?' || c == '|' {
			break
		}
		out = append(out, c)
	}
	return string(out)
}

func groundIndexTerms(ts []*Term) map[Sort][]*Term {
	out := map[Sort][]*Term{}
	seenStr := map[string]bool{}
	seen := map[*Term]bool{}
	add := func(t *Term) {
		if t.hasBV {
			return
		}
		s := t.String()
		if seenStr[s] {
			return
		}
		seenStr[s] = true
		out[t.Sort] = append(out[t.Sort], t)
	}
	var walk func(t *Term)
	walk = func(t *Term) {
		if seen[t] {
			return
		}
		seen[t] = true
		if t.Kind == kApp && (t.Op == "select" || t.Op == "store") {
			add(t.Args[1])
		}
		if t.Kind == kConst && (t.Sort == SInt || t.Sort == SStr) {
			add(t)
		}
		for _, a := range t.Args {
			walk(a)
		}
	}
	for _, t := range ts {
		walk(t)
	}
	return out
}

// instantiate returns the weakened assumption list (nil if nothing was quantified).
func instantiate(assumes []*Term, goal *Term) ([]*Term, *Term, bool) {
	g2 := skolemizeGoal(goal)
	any := g2 != goal
	all := append(append([]*Term{}, assumes...), g2)
	cands := groundIndexTerms(all)
	var out []*Term
	for _, a := range assumes {
		if a.Kind == kQuant && a.Op == "forall" {
			any = true
			out = append(out, instForall(a, cands)...)
			continue
		}
		if a.Kind == kApp && a.Op == "and" {
			changed := false
			for _, c := range a.Args {
				if c.Kind == kQuant && c.Op == "forall" {
					out = append(out, instForall(c, cands)...)
					changed = true
				} else {
					out = append(out, c)
				}
			}
			if changed {
				any = true
			}
			continue
		}
		out = append(out, a)
	}
	return out, g2, any
}

func instForall(q *Term, cands map[Sort][]*Term) []*Term {
	var res []*Term
	const limit = 600
	var rec func(i int, m map[string]*Term)
	rec = func(i int, m map[string]*Term) {
		if len(res) >= limit {
			return
		}
		if i == len(q.Bound) {
			b := Subst(q.Args[0], m)
			if !b.IsTrue() {
				res = append(res, b)
			}
			return
		}
		v := q.Bound[i]
		cs := cands[v.Sort]
		if len(cs) > 48 {
			cs = cs[:48]
		}
		for _, c := range cs {
			m[v.Op] = c
			rec(i+1, m)
		}
		delete(m, v.Op)
	}
	rec(0, map[string]*Term{})
	return res
}

// closureAxioms: the entry heap is closed under allocation — an object allocated at entry stores only
// nil or references allocated at entry in its reference-typed fields (added per entry family used).
func closureAxioms(ts []*Term) []*Term {
	var out []*Term
	seen := map[*Term]bool{}
	done := map[string]bool{}
	alloc0 := Const("G$alloc@0", ArrSort(SInt, SBool))
	var walk func(t *Term)
	walk = func(t *Term) {
		if seen[t] {
			return
		}
		seen[t] = true
		for _, a := range t.Args {
			walk(a)
		}
		if t.Kind == kConst && strings.HasSuffix(strings.Trim(t.Op, "|"), "@0") && !done[t.Op] {
			fam := strings.TrimSuffix(strings.Trim(t.Op, "|"), "@0")
			if heapRefFam[fam] && t.Sort == ArrSort(SInt, SInt) {
				done[t.Op] = true
				r := BoundVar("r", SInt)
				out = append(out, Forall([]*Term{r}, Implies(Select(alloc0, r), Or(Eq(Select(t, r), IntLit(0)), And(Gt(Select(t, r), IntLit(0)), Select(alloc0, Select(t, r)))))))
			}
		}
	}
	for _, t := range ts {
		walk(t)
	}
	return out
}
