package main

import (
	"fmt"
	"os"
	"sort"
	"strings"
)

// Finite instantiation of quantified assumptions.
// Replacing an assumption (forall x. P x) by the conjunction of P t over finitely many ground terms t
// weakens the hypotheses, so "unsat" for the instantiated query is a valid proof of the original
// obligation, while "sat" only yields a candidate counterexample (confirmed by the full query / replay).

func skolemizeGoal(g *Term) *Term {
	switch {
	case g.Kind == kQuant && g.Op == "forall":
		m := map[string]*Term{}
		for _, v := range g.Bound {
			m[v.Op] = Fresh("sk$"+trimName(v.Op), v.Sort)
		}
		return skolemizeGoal(Subst(g.Args[0], m))
	case g.Kind == kApp && g.Op == "and":
		var cs []*Term
		for _, a := range g.Args {
			cs = append(cs, skolemizeGoal(a))
		}
		return And(cs...)
	case g.Kind == kApp && g.Op == "=>":
		return Implies(g.Args[0], skolemizeGoal(g.Args[1]))
	}
	return g
}

func trimName(s string) string {
	out := []rune{}
	for _, c := range s {
		if c == '?' || c == '|' {
			break
		}
		out = append(out, c)
	}
	return string(out)
}

func groundIndexTerms(ts []*Term) map[Sort][]*Term {
	out := map[Sort][]*Term{}
	seenStr := map[string]bool{}
	seen := map[*Term]bool{}
	add := func(t *Term) {
		if t.hasBV {
			return
		}
		s := t.Key()
		if seenStr[s] {
			return
		}
		seenStr[s] = true
		out[t.Sort] = append(out[t.Sort], t)
	}
	var walk func(t *Term)
	walk = func(t *Term) {
		if seen[t] {
			return
		}
		seen[t] = true
		if t.Kind == kApp && (t.Op == "select" || t.Op == "store") {
			add(t.Args[1])
		}
		if t.Kind == kConst && (t.Sort == SInt || t.Sort == SStr) {
			add(t)
		}
		for _, a := range t.Args {
			walk(a)
		}
	}
	for _, t := range ts {
		walk(t)
	}
	return out
}

// instantiate returns the weakened assumption list (nil if nothing was quantified).
func instantiate(assumes []*Term, goal *Term) ([]*Term, *Term, bool) {
	g2 := skolemizeGoal(goal)
	any := g2 != goal
	// goal a => b: assume a (its existentials skolemized: their witnesses are candidate terms), prove b
	// (only when the goal needs witnesses; otherwise the implication is left to the solver)
	var hypSks []*Term
	for hasExists(g2) && g2.Kind == kApp && g2.Op == "=>" && !g2.hasBV {
		assumes = append(append([]*Term{}, assumes...), skolemizePositive(g2.Args[0], &hypSks))
		g2 = skolemizeGoal(g2.Args[1])
		any = true
	}
	if uf := unfoldRec(append(append([]*Term{}, assumes...), g2), 2); len(uf) > 0 {
		assumes = append(append([]*Term{}, assumes...), uf...)
		any = true
	}
	addSk := func(cands map[Sort][]*Term, sks []*Term) {
		for _, c := range sks {
			cands[c.Sort] = append(cands[c.Sort], c)
		}
	}
	collectEqClasses(assumes)
	goalHasEx := hasExists(g2)
	gcur := g2
	var out []*Term
	var sks []*Term
	for round := 0; round < 2; round++ {
		all := append(append([]*Term{}, assumes...), gcur)
		cands := groundIndexTerms(all)
		addSk(cands, hypSks)
		addSk(cands, sks)
		// the goal's own skolem constants are the most relevant instances: try them first
		for srt, cs := range cands {
			var front, rest []*Term
			for _, c := range cs {
				if c.Kind == kConst && strings.HasPrefix(c.Op, "sk$") {
					front = append(front, c)
				} else {
					rest = append(rest, c)
				}
			}
			cands[srt] = append(front, rest...)
		}
		if goalHasEx {
			witnessOccs = collectSelOccs(all)
			witnessSks = append(append([]*Term{}, hypSks...), sks...)
			g3 := witnessGoal(g2, cands)
			if g3 != g2 {
				any = true
			}
			gcur = g3
			all = append(append([]*Term{}, assumes...), gcur)
		}
		occs := collectSelOccs(all)
		inst := func(q *Term) []*Term {
			if r, ok := instForallTriggers(q, occs, cands); ok {
				return r // no matching ground term means no instance is relevant
			}
			return instForall(q, cands)
		}
		out = nil
		var quants []*Term
		for _, a := range assumes {
			if a.Kind == kQuant && a.Op == "forall" {
				any = true
				quants = append(quants, a)
				out = append(out, inst(a)...)
				continue
			}
			if a.Kind == kApp && a.Op == "and" {
				changed := false
				for _, c := range a.Args {
					if c.Kind == kQuant && c.Op == "forall" {
						quants = append(quants, c)
						out = append(out, inst(c)...)
						changed = true
					} else {
						out = append(out, c)
					}
				}
				if changed {
					any = true
				}
				continue
			}
			out = append(out, a)
		}
		// chaining: an instance may read ground terms that other quantified assumptions speak about (e.g. an append
		// of a sub-slice); match the quantifiers against the reads that the instances introduced, twice at most
		out = chainInstances(quants, out, occs)
		// existentials: skolemize the assumed ones; their constants become witnesses in the next round
		var newSks []*Term
		for k, a := range out {
			n0 := len(newSks)
			out[k] = skolemizePositive(a, &newSks)
			if debugInst && len(newSks) > n0 {
				fmt.Fprintf(os.Stderr, "  round %d skolem %v from %.200s\n", round, newSks[n0:], a.String())
			}
		}
		if round == 1 {
			break
		}
		if !goalHasEx || len(newSks) == 0 {
			break
		}
		// keep the skolemized instances stable across rounds: treat them as plain assumptions next time
		sks = append(sks, newSks...)
		assumes = append(append([]*Term{}, assumes...), onlyGround(out)...)
	}
	return out, gcur, any
}

// instFam: the heap family of an array term; an array constant outside the heap families (the contents of one
// fresh backing array, a copy) is a family of its own, so its defining axioms match reads of it only.
func instFam(a *Term) string {
	if f := familyOf(a); f != "" {
		return f
	}
	b := a
	for b.Kind == kApp && b.Op == "store" {
		b = b.Args[0]
	}
	if b.Kind == kConst {
		return "const:" + b.Op
	}
	return ""
}

var skMemo = map[int]bool{}

// mentionsSkolem: the term contains a skolem constant (sk$...) of the goal or of an assumed existential.
func mentionsSkolem(t *Term) bool {
	if t.Kind == kConst {
		return strings.HasPrefix(t.Op, "sk$")
	}
	if len(t.Args) == 0 {
		return false
	}
	if r, ok := skMemo[t.id]; ok {
		return r
	}
	r := false
	for _, a := range t.Args {
		if mentionsSkolem(a) {
			r = true
			break
		}
	}
	skMemo[t.id] = r
	return r
}

func occKey(o selOcc) string {
	k := o.fam + "|" + string(o.sort)
	for _, i := range o.idx {
		k += "|" + i.Key()
	}
	return k
}

func chainInstances(quants []*Term, out []*Term, known []selOcc) []*Term {
	// allocation bookkeeping axioms (a fresh reference is stored nowhere; the entry heap is closed under
	// allocation) only multiply reads: they take no part in chaining
	var qs []*Term
	for _, q := range quants {
		b := q.Args[0]
		if b.Kind == kApp && b.Op == "not" && len(b.Args) == 1 && b.Args[0].Kind == kApp && b.Args[0].Op == "=" {
			continue
		}
		if b.Kind == kApp && b.Op == "=>" && b.Args[0].Kind == kApp && b.Args[0].Op == "select" && familyOf(b.Args[0].Args[0]) == "G$alloc" {
			continue
		}
		qs = append(qs, q)
	}
	quants = qs
	if len(quants) < 2 {
		return out
	}
	seen := map[string]bool{}
	for _, o := range known {
		seen[occKey(o)] = true
	}
	from := 0
	for depth := 0; depth < 3; depth++ {
		var fresh []selOcc
		for _, o := range collectSelOccs(out[from:]) {
			if k := occKey(o); !seen[k] {
				seen[k] = true
				fresh = append(fresh, o)
			}
		}
		// relevance: when the goal was skolemized, only reads that mention a skolem constant can matter for it
		if anySk := func() bool {
			for _, o := range fresh {
				for _, i := range o.idx {
					if mentionsSkolem(i) {
						return true
					}
				}
			}
			return false
		}(); anySk {
			var rel []selOcc
			for _, o := range fresh {
				for _, i := range o.idx {
					if mentionsSkolem(i) {
						rel = append(rel, o)
						break
					}
				}
			}
			fresh = rel
		}
		if debugInst {
			fmt.Fprintf(os.Stderr, "  chain depth %d: %d fresh reads, %d quantifiers\n", depth, len(fresh), len(quants))
			for _, o := range fresh {
				if k := occKey(o); strings.Contains(k, "sk$") && len(k) < 400 {
					fmt.Fprintf(os.Stderr, "      fresh %s\n", k)
				}
			}
		}
		if len(fresh) == 0 || len(fresh) > 400 {
			break
		}
		from = len(out)
		var add []*Term
		for _, q := range quants {
			if r, ok := instForallTriggers(q, fresh, map[Sort][]*Term{}); ok {
				add = append(add, r...)
				if debugInst {
					fmt.Fprintf(os.Stderr, "    +%d from %.160s\n", len(r), q.String())
				}
			} else if debugInst {
				fmt.Fprintf(os.Stderr, "    no trigger in %.160s\n", q.String())
			}
			if len(add) > 1500 {
				break
			}
		}
		if len(add) == 0 {
			break
		}
		out = append(out, add...)
	}
	return out
}

// onlyGround: instances that no longer contain quantifiers (safe to carry over as plain assumptions).
func onlyGround(ts []*Term) []*Term {
	var out []*Term
	for _, t := range ts {
		if !hasQuant(t) {
			out = append(out, t)
		}
	}
	return out
}

func hasQuant(t *Term) bool {
	if t.Kind == kQuant {
		return true
	}
	for _, a := range t.Args {
		if hasQuant(a) {
			return true
		}
	}
	return false
}

func hasExists(t *Term) bool {
	if t.Kind == kQuant && t.Op == "exists" {
		return true
	}
	for _, a := range t.Args {
		if hasExists(a) {
			return true
		}
	}
	return false
}

// trigger-based instantiation: a quantified variable that occurs as a select index is instantiated with
// the ground indices of selects on the same heap family (same nesting) occurring in the query.
type selOcc struct {
	fam  string
	sort Sort
	idx  []*Term // indices from the outermost array inwards
}

func selChain(t *Term) (*Term, []*Term) {
	// select(select(A, i), j) -> A, [i, j]; stores on intermediate arrays are looked through:
	// select(store(select(A, i), k, v), j) is (also) a read of A at [i, j]
	var idx []*Term
	for {
		for t.Kind == kApp && t.Op == "store" && len(idx) > 0 {
			t = t.Args[0]
		}
		if t.Kind == kApp && t.Op == "select" {
			idx = append([]*Term{t.Args[1]}, idx...)
			t = t.Args[0]
			continue
		}
		break
	}
	return t, idx
}

type rowRead struct {
	a   *Term
	idx []*Term
}

// storedRowReads: for a select chain whose array is a store of whole rows, the reads of those rows it may denote.
func storedRowReads(t *Term) []rowRead {
	var out []rowRead
	var idx []*Term
	for t.Kind == kApp && t.Op == "select" {
		idx = append([]*Term{t.Args[1]}, idx...)
		t = t.Args[0]
		// idx[0] is the index into t; the remaining ones index the row
		for st := t; st.Kind == kApp && st.Op == "store"; st = st.Args[0] {
			row := st.Args[2]
			if strings.HasPrefix(string(row.Sort), "(Array ") && len(idx) > 1 && row.Kind == kConst {
				out = append(out, rowRead{row, idx[1:]})
			}
		}
	}
	return out
}

func collectSelOccs(ts []*Term) []selOcc {
	var out []selOcc
	seen := map[*Term]bool{}
	dedup := map[string]bool{}
	var walk func(t *Term, under bool)
	walk = func(t *Term, under bool) {
		if seen[t] && !under {
			return
		}
		seen[t] = true
		if t.Kind == kApp && t.Op == "select" && !t.hasBV {
			a, idx := selChain(t)
			key := instFam(a) + "|" + string(a.Sort)
			for _, i := range idx {
				key += "|" + i.Key()
			}
			if !dedup[key] {
				dedup[key] = true
				out = append(out, selOcc{instFam(a), a.Sort, idx})
			}
			// a read through store(A, r, row) may be a read of the stored row: select(select(store(A, r, row), b), i)
			// is (also) a read of row at [i]
			for _, ro := range storedRowReads(t) {
				k2 := instFam(ro.a) + "|" + string(ro.a.Sort)
				for _, i := range ro.idx {
					k2 += "|" + i.Key()
				}
				if !dedup[k2] {
					dedup[k2] = true
					out = append(out, selOcc{instFam(ro.a), ro.a.Sort, ro.idx})
				}
			}
		}
		for _, a := range t.Args {
			walk(a, false)
		}
	}
	for _, t := range ts {
		walk(t, false)
	}
	return out
}

func instForallTriggers(q *Term, occs []selOcc, cands map[Sort][]*Term) ([]*Term, bool) {
	bound := map[string]int{}
	for i, v := range q.Bound {
		bound[v.Op] = i
	}
	// find trigger selects in the body: chains whose indices are exactly bound variables
	type trig struct {
		fam  string
		sort Sort
		vars []int // bound var position per index level, -1 = ground/other
		gidx []*Term
		offs []*Term // per level: ground offset c when the index is (c + x); the match yields x = t - c
	}
	var trigs []trig
	seen := map[*Term]bool{}
	var walk func(t *Term)
	walk = func(t *Term) {
		if seen[t] {
			return
		}
		seen[t] = true
		if t.Kind == kApp && t.Op == "select" && t.hasBV {
			a, idx := selChain(t)
			if !a.hasBV {
				tr := trig{fam: instFam(a), sort: a.Sort}
				okT := false
				for _, i := range idx {
					if i.Kind == kBound {
						if p, ok := bound[i.Op]; ok {
							tr.vars = append(tr.vars, p)
							tr.gidx = append(tr.gidx, nil)
							tr.offs = append(tr.offs, nil)
							okT = true
							continue
						}
					}
					// index (c + x) or (x + c) with c ground
					if i.Kind == kApp && i.Op == "+" && len(i.Args) == 2 && i.Sort == SInt {
						var bv, off *Term
						if i.Args[0].Kind == kBound && !i.Args[1].hasBV {
							bv, off = i.Args[0], i.Args[1]
						} else if i.Args[1].Kind == kBound && !i.Args[0].hasBV {
							bv, off = i.Args[1], i.Args[0]
						}
						if bv != nil {
							if p, ok := bound[bv.Op]; ok {
								tr.vars = append(tr.vars, p)
								tr.gidx = append(tr.gidx, nil)
								tr.offs = append(tr.offs, off)
								okT = true
								continue
							}
						}
					}
					if i.hasBV {
						// a compound index mentioning bound variables: matched by syntactic unification
						if !onlyTheseBound(i, bound) {
							okT = false
							tr.vars = nil
							break
						}
						tr.vars = append(tr.vars, -2)
						tr.gidx = append(tr.gidx, i)
						tr.offs = append(tr.offs, nil)
						okT = true
						continue
					}
					tr.vars = append(tr.vars, -1)
					tr.gidx = append(tr.gidx, i)
					tr.offs = append(tr.offs, nil)
				}
				if okT && tr.vars != nil {
					trigs = append(trigs, tr)
				}
			}
		}
		for _, a := range t.Args {
			walk(a)
		}
	}
	walk(q.Args[0])
	if len(trigs) == 0 {
		return nil, false
	}
	// an allocation guard (select G$alloc x) is a poor trigger: it matches every reference in the query. Drop it
	// when another trigger binds the same variables.
	{
		var keep []trig
		for i, tr := range trigs {
			if tr.fam == "G$alloc" {
				covered := false
				for j, o := range trigs {
					if i == j || o.fam == "G$alloc" {
						continue
					}
					all := true
					for _, p := range tr.vars {
						if p < 0 {
							continue
						}
						has := false
						for _, q := range o.vars {
							if q == p {
								has = true
							}
						}
						if !has {
							all = false
						}
					}
					if all {
						covered = true
						break
					}
				}
				if covered {
					continue
				}
			}
			keep = append(keep, tr)
		}
		trigs = keep
	}
	// assignments from matching occurrences
	var res []*Term
	done := map[string]bool{}
	emit := func(asg []*Term) {
		if len(res) >= 400 {
			return
		}
		m := map[string]*Term{}
		key := ""
		for i, v := range q.Bound {
			if asg[i] == nil {
				return
			}
			m[v.Op] = asg[i]
			key += asg[i].Key() + "|"
		}
		if done[key] {
			return
		}
		done[key] = true
		if recordQuant != nil {
			recordQuant.asgs = append(recordQuant.asgs, append([]*Term{}, asg...))
			return
		}
		b := Subst(q.Args[0], m)
		if !b.IsTrue() {
			res = append(res, b)
		}
	}
	for _, tr := range trigs {
		for _, oc := range occs {
			if oc.sort != tr.sort || len(oc.idx) < len(tr.vars) {
				continue
			}
			if tr.fam != "" && oc.fam != "" && tr.fam != oc.fam {
				continue
			}
			asg := make([]*Term, len(q.Bound))
			okM := true
			for lvl, p := range tr.vars {
				if p == -2 {
					if !unifyPattern(tr.gidx[lvl], oc.idx[lvl], bound, asg) {
						okM = false
						break
					}
					continue
				}
				if p < 0 && lvl < len(tr.gidx) && tr.gidx[lvl] != nil && !groundMayEqual(tr.gidx[lvl], oc.idx[lvl]) {
					okM = false
					break
				}
				if p >= 0 {
					val := oc.idx[lvl]
					if lvl < len(tr.offs) && tr.offs[lvl] != nil {
						val = Sub(val, tr.offs[lvl])
					}
					if asg[p] != nil && !same(asg[p], val) {
						okM = false
						break
					}
					asg[p] = val
				}
			}
			if !okM {
				continue
			}
			// remaining variables: from other triggers' matches is too costly; use small candidate sets
			var missing []int
			for i := range q.Bound {
				if asg[i] == nil {
					missing = append(missing, i)
				}
			}
			if len(missing) == 0 {
				emit(asg)
				continue
			}
			if len(missing) == 1 {
				cs := cands[q.Bound[missing[0]].Sort]
				if len(cs) > 24 {
					cs = cs[:24]
				}
				for _, c := range cs {
					a2 := append([]*Term{}, asg...)
					a2[missing[0]] = c
					emit(a2)
				}
			}
		}
	}
	return res, true
}

// onlyTheseBound: every bound variable in t is one of the quantifier's own.
func onlyTheseBound(t *Term, bound map[string]int) bool {
	if t.Kind == kBound {
		_, ok := bound[t.Op]
		return ok
	}
	if t.Kind == kQuant {
		return false
	}
	for _, a := range t.Args {
		if a.hasBV && !onlyTheseBound(a, bound) {
			return false
		}
	}
	return true
}

// unifyPattern: syntactic one-way unification of a pattern (with the quantifier's bound variables) against a ground
// term; bindings go into asg (by bound position). Ground sub-terms must be the same term.
func unifyPattern(pat, g *Term, bound map[string]int, asg []*Term) bool {
	if !pat.hasBV {
		return same(pat, g)
	}
	if pat.Kind == kBound {
		p, ok := bound[pat.Op]
		if !ok || pat.Sort != g.Sort {
			return false
		}
		if asg[p] != nil {
			return same(asg[p], g)
		}
		asg[p] = g
		return true
	}
	if pat.Kind != g.Kind || pat.Op != g.Op || len(pat.Args) != len(g.Args) || pat.Sort != g.Sort {
		return false
	}
	for i := range pat.Args {
		if !unifyPattern(pat.Args[i], g.Args[i], bound, asg) {
			return false
		}
	}
	return true
}

// instEqClass: equivalence classes of ground terms induced by the top-level equalities of the query being
// instantiated (set by instantiate, which runs under the discharger lock).
var instEqClass map[string]string
var debugInst = os.Getenv("GOWP_DEBUG_INST") == "2"

func eqFind(k string) string {
	for {
		p, ok := instEqClass[k]
		if !ok || p == k {
			return k
		}
		k = p
	}
}

func collectEqClasses(assumes []*Term) {
	instEqClass = map[string]string{}
	var visit func(t *Term, depth int)
	visit = func(t *Term, depth int) {
		if t.Kind != kApp {
			return
		}
		if t.Op == "and" && depth < 3 {
			for _, a := range t.Args {
				visit(a, depth+1)
			}
			return
		}
		if t.Op == "=" && len(t.Args) == 2 && !t.hasBV && t.Args[0].Sort == SInt {
			a, b := eqFind(t.Args[0].Key()), eqFind(t.Args[1].Key())
			if a != b {
				instEqClass[a] = b
			}
		}
	}
	for _, a := range assumes {
		visit(a, 0)
	}
}

// groundMayEqual: a ground index of a trigger matches an occurrence's index when they are the same term or
// known equal by a top-level equality. (Allocation bases that are only conditionally equal are not matched: the
// instantiated query is then weaker, never stronger.)
func groundMayEqual(a, b *Term) bool {
	if same(a, b) {
		return true
	}
	if a.Sort != SInt || b.Sort != SInt {
		return true
	}
	// only distinguish allocation identities (constants), not arithmetic
	if a.Kind != kConst || b.Kind != kConst {
		return true
	}
	return eqFind(a.Key()) == eqFind(b.Key())
}

// triggerMatches: for a one-variable quantifier, the terms its variable takes under trigger matching.
func triggerMatches(q *Term, occs []selOcc) ([]*Term, bool) {
	v := q.Bound[0]
	rec := &recordingQuant{}
	recordQuant = rec
	_, ok := instForallTriggers(q, occs, map[Sort][]*Term{})
	recordQuant = nil
	if !ok {
		return nil, false
	}
	var out []*Term
	for _, a := range rec.asgs {
		if len(a) == 1 && a[0] != nil && a[0].Sort == v.Sort {
			out = append(out, a[0])
		}
	}
	return out, true
}

type recordingQuant struct{ asgs [][]*Term }

var recordQuant *recordingQuant

func instForall(q *Term, cands map[Sort][]*Term) []*Term {
	var res []*Term
	const limit = 600
	var rec func(i int, m map[string]*Term)
	rec = func(i int, m map[string]*Term) {
		if len(res) >= limit {
			return
		}
		if i == len(q.Bound) {
			b := Subst(q.Args[0], m)
			if !b.IsTrue() {
				res = append(res, b)
			}
			return
		}
		v := q.Bound[i]
		cs := cands[v.Sort]
		if len(cs) > 48 {
			cs = cs[:48]
		}
		for _, c := range cs {
			m[v.Op] = c
			rec(i+1, m)
		}
		delete(m, v.Op)
	}
	rec(0, map[string]*Term{})
	return res
}

// isLenFamily: an array constant (any epoch or havoc) of a heap family holding slice lengths.
func isLenFamily(t *Term) bool {
	n := strings.Trim(t.Op, "|")
	if i := strings.LastIndex(n, "@"); i >= 0 {
		n = n[:i]
	} else if i := strings.LastIndex(n, "!"); i >= 0 {
		n = n[:i]
	}
	if !strings.HasSuffix(n, "$len") && !strings.HasSuffix(n, ".len") {
		return false
	}
	return strings.Contains(n, "M$") || strings.Contains(n, "H$") || strings.Contains(n, "S$")
}

// closureAxioms: the entry heap is closed under allocation — an object allocated at entry stores only
// nil or references allocated at entry in its reference-typed fields (added per entry family used).
func closureAxioms(ts []*Term) []*Term {
	var out []*Term
	seen := map[*Term]bool{}
	done := map[string]bool{}
	alloc0 := Const("G$alloc@0", ArrSort(SInt, SBool))
	var walk func(t *Term)
	walk = func(t *Term) {
		if seen[t] {
			return
		}
		seen[t] = true
		for _, a := range t.Args {
			walk(a)
		}
		if t.Kind == kConst && !done["len:"+t.Op] && isLenFamily(t) {
			// lengths of slices stored in maps, fields and slices are never negative, in any state
			done["len:"+t.Op] = true
			if t.Sort == ArrSort(SInt, SInt) {
				r := BoundVar("r", SInt)
				out = append(out, Forall([]*Term{r}, Ge(Select(t, r), IntLit(0))))
			} else if strings.HasPrefix(string(t.Sort), "(Array Int (Array ") && strings.HasSuffix(string(t.Sort), " Int))") {
				_, inner := arrParts(t.Sort)
				ks, _ := arrParts(inner)
				r, k := BoundVar("r", SInt), BoundVar("k", ks)
				out = append(out, Forall([]*Term{r, k}, Ge(Select(Select(t, r), k), IntLit(0))))
			}
		}
		if t.Kind == kConst && strings.HasSuffix(strings.Trim(t.Op, "|"), "@0") && !done[t.Op] {
			fam := strings.TrimSuffix(strings.Trim(t.Op, "|"), "@0")
			if heapRefFam[fam] && t.Sort == ArrSort(SInt, SInt) {
				done[t.Op] = true
				r := BoundVar("r", SInt)
				out = append(out, Forall([]*Term{r}, Implies(Select(alloc0, r), Or(Eq(Select(t, r), IntLit(0)), And(Gt(Select(t, r), IntLit(0)), Select(alloc0, Select(t, r)))))))
			} else if heapRefFam[fam] && strings.HasPrefix(string(t.Sort), "(Array Int (Array ") && strings.HasSuffix(string(t.Sort), " Int))") {
				// containers (map values, slice elements) of an allocated container are nil or allocated
				done[t.Op] = true
				_, inner := arrParts(t.Sort)
				ks, _ := arrParts(inner)
				r := BoundVar("r", SInt)
				k := BoundVar("k", ks)
				e := Select(Select(t, r), k)
				out = append(out, Forall([]*Term{r, k}, Implies(Select(alloc0, r), Or(Eq(e, IntLit(0)), And(Gt(e, IntLit(0)), Select(alloc0, e))))))
			}
		}
	}
	for _, t := range ts {
		walk(t)
	}
	// function identities: non-nil and pairwise distinct
	var fns []*Term
	fseen := map[string]bool{}
	for t := range seen {
		if t.Kind == kConst && t.Sort == SInt && strings.HasPrefix(strings.Trim(t.Op, "|"), "fn$") && !fseen[t.Op] {
			fseen[t.Op] = true
			fns = append(fns, t)
		}
	}
	sort.Slice(fns, func(i, j int) bool { return fns[i].Op < fns[j].Op })
	for i, f := range fns {
		out = append(out, Gt(f, IntLit(0)))
		for _, g := range fns[i+1:] {
			out = append(out, Neq(f, g))
		}
	}
	return out
}

// unfoldRec: one-step unfolding equations f(args) = body[args] for the ground applications of recursive
// spec functions occurring in ts (used where the definitions themselves are abstracted away).
func unfoldRec(ts []*Term, rounds int) []*Term {
	var out []*Term
	done := map[string]bool{}
	cur := ts
	for r := 0; r < rounds; r++ {
		var apps []*Term
		seen := map[*Term]bool{}
		var walk func(t *Term)
		walk = func(t *Term) {
			if seen[t] {
				return
			}
			seen[t] = true
			for _, a := range t.Args {
				walk(a)
			}
			if t.Kind == kUF && !t.hasBV {
				if _, ok := recDefBodies[t.Op]; ok && !done[t.Key()] {
					done[t.Key()] = true
					apps = append(apps, t)
				}
			}
		}
		for _, t := range cur {
			walk(t)
		}
		if len(apps) == 0 {
			break
		}
		var eqs []*Term
		for _, a := range apps {
			params := recDefParams[a.Op]
			if len(params) != len(a.Args) {
				continue
			}
			m := map[string]*Term{}
			for i, p := range params {
				m[p.Op] = a.Args[i]
			}
			eqs = append(eqs, Eq(a, Subst(recDefBodies[a.Op], m)))
		}
		out = append(out, eqs...)
		cur = eqs
	}
	return out
}

// skolemizePositive replaces existential quantifiers at positive positions of a closed formula by fresh
// constants (equisatisfiable); the constants are returned so that they can serve as witnesses elsewhere.
func skolemizePositive(t *Term, consts *[]*Term) *Term {
	switch {
	case t.Kind == kQuant && t.Op == "exists" && !freeBound(t):
		m := map[string]*Term{}
		for _, v := range t.Bound {
			c := Fresh("sk$"+trimName(v.Op), v.Sort)
			m[v.Op] = c
			*consts = append(*consts, c)
		}
		return skolemizePositive(Subst(t.Args[0], m), consts)
	case t.Kind == kApp && t.Op == "and":
		var cs []*Term
		for _, a := range t.Args {
			cs = append(cs, skolemizePositive(a, consts))
		}
		return And(cs...)
	case t.Kind == kApp && t.Op == "=>" && !t.hasBV:
		return Implies(t.Args[0], skolemizePositive(t.Args[1], consts))
	}
	return t
}

// witnessGoal replaces existential quantifiers at positive positions of the goal by the finite
// disjunction over candidate witnesses (a stronger goal: proving it proves the original).
var witnessOccs []selOcc
var witnessSks []*Term

// witnessCands: candidate witnesses of one existentially bound variable, driven by the body — indices of the
// ground reads that the body's reads of the variable can match, the ground bounds the body puts on it, and the
// skolem constants of assumed existentials. Nil when the body gives no such handle (the caller falls back to
// all ground index terms).
func witnessCands(g *Term, vi int) []*Term {
	v := g.Bound[vi]
	q := &Term{Kind: kQuant, Op: "forall", Bound: []*Term{v}, Args: g.Args, Sort: SBool, hasBV: g.hasBV}
	var out []*Term
	seen := map[string]bool{}
	add := func(t *Term) {
		if t == nil || t.hasBV || t.Sort != v.Sort {
			return
		}
		k := t.Key()
		if !seen[k] {
			seen[k] = true
			out = append(out, t)
		}
	}
	handle := false
	if m, ok := triggerMatches(q, witnessOccs); ok {
		handle = true
		for _, t := range m {
			add(t)
		}
	}
	var walk func(t *Term, depth int)
	walk = func(t *Term, depth int) {
		if t.Kind != kApp || depth > 4 {
			return
		}
		switch t.Op {
		case "and", "or", "not", "=>":
			for _, a := range t.Args {
				walk(a, depth+1)
			}
		case "<=", "<", ">=", ">", "=":
			if len(t.Args) == 2 {
				a, b := t.Args[0], t.Args[1]
				if a.Kind == kBound && a.Op == v.Op && !b.hasBV {
					handle = true
					add(b)
					if v.Sort == SInt && (t.Op == "<" || t.Op == ">") {
						add(Sub(b, IntLit(1)))
						add(Add(b, IntLit(1)))
					}
				} else if b.Kind == kBound && b.Op == v.Op && !a.hasBV {
					handle = true
					add(a)
					if v.Sort == SInt && (t.Op == "<" || t.Op == ">") {
						add(Sub(a, IntLit(1)))
						add(Add(a, IntLit(1)))
					}
				}
			}
		}
	}
	walk(g.Args[0], 0)
	if !handle {
		return nil
	}
	for _, sk := range witnessSks {
		add(sk)
		if sk.Sort == SInt && v.Sort == SInt {
			// the neighbours of an assumed witness (an element moved by one position)
			add(Sub(sk, IntLit(1)))
			add(Add(sk, IntLit(1)))
		}
	}
	if len(out) > 60 {
		out = out[:60]
	}
	return out
}

func witnessGoal(g *Term, cands map[Sort][]*Term) *Term {
	switch {
	case g.Kind == kQuant && g.Op == "exists" && !freeBound(g):
		var alts []*Term
		var rec func(i int, m map[string]*Term)
		rec = func(i int, m map[string]*Term) {
			if len(alts) >= 300 {
				return
			}
			if i == len(g.Bound) {
				alts = append(alts, witnessGoal(Subst(g.Args[0], m), cands))
				return
			}
			cs := witnessCands(g, i)
			if cs == nil {
				cs = cands[g.Bound[i].Sort]
				if len(cs) > 40 {
					cs = cs[len(cs)-40:]
				}
			}
			for _, c := range cs {
				m[g.Bound[i].Op] = c
				rec(i+1, m)
			}
			delete(m, g.Bound[i].Op)
		}
		rec(0, map[string]*Term{})
		if len(alts) == 0 {
			return g
		}
		return Or(alts...)
	case g.Kind == kQuant && g.Op == "forall" && !freeBound(g):
		// a universal at a positive position of the goal: prove it for fresh constants
		m := map[string]*Term{}
		for _, v := range g.Bound {
			m[v.Op] = Fresh("sk$"+trimName(v.Op), v.Sort)
		}
		return witnessGoal(Subst(g.Args[0], m), cands)
	case g.Kind == kApp && g.Op == "and":
		var cs []*Term
		for _, a := range g.Args {
			cs = append(cs, witnessGoal(a, cands))
		}
		return And(cs...)
	case g.Kind == kApp && g.Op == "=>" && !g.hasBV:
		return Implies(g.Args[0], witnessGoal(g.Args[1], cands))
	}
	return g
}

// chainNeeded: more than one quantified assumption means instances of one may provide the ground terms
// another one needs (e.g. append of a sub-slice): a second instantiation round is worth it.
func chainNeeded(assumes []*Term) bool {
	n := 0
	for _, a := range assumes {
		if a.Kind == kQuant {
			n++
		} else if a.Kind == kApp && a.Op == "and" {
			for _, c := range a.Args {
				if c.Kind == kQuant {
					n++
				}
			}
		}
	}
	return n >= 2
}
