package main

// Parser for the contract expression language (Go expression syntax plus
// ==>, <==>, c ? a : b, forall/exists x T :: e, old(e), ghost calls).

import (
	"fmt"
	"strings"
	"unicode"
)

type Expr struct {
	Kind string // ident int str bool nil unop binop call sel index cond quant
	Op   string // operator, identifier name, selector name, quantifier kind
	Lit  string
	Args []*Expr
	Vars []BoundDecl
	Pos  int
}

type BoundDecl struct {
	Name string
	Type string
}

func (e *Expr) String() string {
	switch e.Kind {
	case "ident":
		return e.Op
	case "int", "bool", "nil":
		return e.Lit
	case "str":
		return fmt.Sprintf("%q", e.Lit)
	case "unop":
		return e.Op + e.Args[0].String()
	case "binop":
		return "(" + e.Args[0].String() + " " + e.Op + " " + e.Args[1].String() + ")"
	case "call":
		var as []string
		for _, a := range e.Args[1:] {
			as = append(as, a.String())
		}
		return e.Args[0].String() + "(" + strings.Join(as, ", ") + ")"
	case "sel":
		return e.Args[0].String() + "." + e.Op
	case "index":
		return e.Args[0].String() + "[" + e.Args[1].String() + "]"
	case "cond":
		return "(" + e.Args[0].String() + " ? " + e.Args[1].String() + " : " + e.Args[2].String() + ")"
	case "quant":
		var vs []string
		for _, v := range e.Vars {
			vs = append(vs, v.Name+" "+v.Type)
		}
		return "(" + e.Op + " " + strings.Join(vs, ", ") + " :: " + e.Args[0].String() + ")"
	}
	return "?"
}

type tok struct {
	kind string // id int str op eof
	text string
	pos  int
}

func lex(src string) ([]tok, error) {
	var toks []tok
	i := 0
	for i < len(src) {
		c := rune(src[i])
		switch {
		case unicode.IsSpace(c):
			i++
		case unicode.IsLetter(c) || c == '_' || c == '$':
			j := i
			for j < len(src) && (unicode.IsLetter(rune(src[j])) || unicode.IsDigit(rune(src[j])) || src[j] == '_' || src[j] == '$') {
				j++
			}
			toks = append(toks, tok{"id", src[i:j], i})
			i = j
		case unicode.IsDigit(c):
			j := i
			for j < len(src) && (unicode.IsDigit(rune(src[j])) || src[j] == '_') {
				j++
			}
			toks = append(toks, tok{"int", strings.ReplaceAll(src[i:j], "_", ""), i})
			i = j
		case c == '"':
			j := i + 1
			var sb strings.Builder
			for j < len(src) && src[j] != '"' {
				if src[j] == '\\' && j+1 < len(src) {
					j++
					switch src[j] {
					case 'n':
						sb.WriteByte('\n')
					case 't':
						sb.WriteByte('\t')
					default:
						sb.WriteByte(src[j])
					}
				} else {
					sb.WriteByte(src[j])
				}
				j++
			}
			if j >= len(src) {
				return nil, fmt.Errorf("unterminated string at %d", i)
			}
			toks = append(toks, tok{"str", sb.String(), i})
			i = j + 1
		default:
			ops := []string{"<==>", "==>", "::", "==", "!=", "<=", ">=", "&&", "||", "<", ">", "+", "-", "*", "/", "%", "!", "(", ")", "[", "]", ".", ",", "?", ":"}
			matched := false
			for _, op := range ops {
				if strings.HasPrefix(src[i:], op) {
					toks = append(toks, tok{"op", op, i})
					i += len(op)
					matched = true
					break
				}
			}
			if !matched {
				return nil, fmt.Errorf("unexpected character %q at %d in %q", c, i, src)
			}
		}
	}
	toks = append(toks, tok{"eof", "", len(src)})
	return toks, nil
}

type parser struct {
	toks []tok
	p    int
	src  string
}

func ParseExpr(src string) (e *Expr, err error) {
	toks, err := lex(src)
	if err != nil {
		return nil, err
	}
	ps := &parser{toks: toks, src: src}
	defer func() {
		if r := recover(); r != nil {
			if pe, ok := r.(parseErr); ok {
				err = fmt.Errorf("%s in %q", string(pe), src)
				return
			}
			panic(r)
		}
	}()
	e = ps.cond()
	if ps.peek().kind != "eof" {
		ps.fail("unexpected %q", ps.peek().text)
	}
	return e, nil
}

type parseErr string

func (ps *parser) fail(f string, a ...interface{}) {
	panic(parseErr(fmt.Sprintf("parse error at %d: ", ps.peek().pos) + fmt.Sprintf(f, a...)))
}
func (ps *parser) peek() tok { return ps.toks[ps.p] }
func (ps *parser) next() tok  { t := ps.toks[ps.p]; ps.p++; return t }
func (ps *parser) isOp(s string) bool {
	t := ps.peek()
	return t.kind == "op" && t.text == s
}
func (ps *parser) expect(s string) {
	if !ps.isOp(s) {
		ps.fail("expected %q, found %q", s, ps.peek().text)
	}
	ps.next()
}

func (ps *parser) cond() *Expr {
	c := ps.iff()
	if ps.isOp("?") {
		ps.next()
		a := ps.cond()
		ps.expect(":")
		b := ps.cond()
		return &Expr{Kind: "cond", Args: []*Expr{c, a, b}}
	}
	return c
}

func (ps *parser) iff() *Expr {
	l := ps.implies()
	for ps.isOp("<==>") {
		ps.next()
		r := ps.implies()
		l = &Expr{Kind: "binop", Op: "<==>", Args: []*Expr{l, r}}
	}
	return l
}

func (ps *parser) implies() *Expr {
	l := ps.or()
	if ps.isOp("==>") {
		ps.next()
		r := ps.implies()
		return &Expr{Kind: "binop", Op: "==>", Args: []*Expr{l, r}}
	}
	return l
}

func (ps *parser) or() *Expr {
	l := ps.and()
	for ps.isOp("||") {
		ps.next()
		r := ps.and()
		l = &Expr{Kind: "binop", Op: "||", Args: []*Expr{l, r}}
	}
	return l
}

func (ps *parser) and() *Expr {
	l := ps.cmp()
	for ps.isOp("&&") {
		ps.next()
		r := ps.cmp()
		l = &Expr{Kind: "binop", Op: "&&", Args: []*Expr{l, r}}
	}
	return l
}

func (ps *parser) cmp() *Expr {
	l := ps.add()
	for {
		t := ps.peek()
		if t.kind == "op" && (t.text == "==" || t.text == "!=" || t.text == "<" || t.text == "<=" || t.text == ">" || t.text == ">=") {
			ps.next()
			r := ps.add()
			l = &Expr{Kind: "binop", Op: t.text, Args: []*Expr{l, r}}
			continue
		}
		return l
	}
}

func (ps *parser) add() *Expr {
	l := ps.mul()
	for ps.isOp("+") || ps.isOp("-") {
		op := ps.next().text
		r := ps.mul()
		l = &Expr{Kind: "binop", Op: op, Args: []*Expr{l, r}}
	}
	return l
}

func (ps *parser) mul() *Expr {
	l := ps.unary()
	for ps.isOp("*") || ps.isOp("/") || ps.isOp("%") {
		op := ps.next().text
		r := ps.unary()
		l = &Expr{Kind: "binop", Op: op, Args: []*Expr{l, r}}
	}
	return l
}

func (ps *parser) unary() *Expr {
	if ps.isOp("!") || ps.isOp("-") {
		op := ps.next().text
		x := ps.unary()
		return &Expr{Kind: "unop", Op: op, Args: []*Expr{x}}
	}
	return ps.postfix()
}

func (ps *parser) postfix() *Expr {
	e := ps.primary()
	for {
		switch {
		case ps.isOp("."):
			ps.next()
			t := ps.next()
			if t.kind != "id" {
				ps.fail("expected field name after '.'")
			}
			e = &Expr{Kind: "sel", Op: t.text, Args: []*Expr{e}}
		case ps.isOp("["):
			ps.next()
			i := ps.cond()
			ps.expect("]")
			e = &Expr{Kind: "index", Args: []*Expr{e, i}}
		case ps.isOp("("):
			ps.next()
			args := []*Expr{e}
			for !ps.isOp(")") {
				args = append(args, ps.cond())
				if ps.isOp(",") {
					ps.next()
				} else {
					break
				}
			}
			ps.expect(")")
			e = &Expr{Kind: "call", Args: args}
		default:
			return e
		}
	}
}

func (ps *parser) typeText() string {
	// tokens until ',' or '::'
	var sb strings.Builder
	depth := 0
	for {
		t := ps.peek()
		if t.kind == "eof" {
			ps.fail("unterminated type in quantifier")
		}
		if depth == 0 && t.kind == "op" && (t.text == "," || t.text == "::") {
			break
		}
		if t.kind == "op" && (t.text == "[" || t.text == "(") {
			depth++
		}
		if t.kind == "op" && (t.text == "]" || t.text == ")") {
			depth--
		}
		sb.WriteString(t.text)
		ps.next()
	}
	return sb.String()
}

func (ps *parser) primary() *Expr {
	t := ps.next()
	switch t.kind {
	case "int":
		return &Expr{Kind: "int", Lit: t.text, Pos: t.pos}
	case "str":
		return &Expr{Kind: "str", Lit: t.text, Pos: t.pos}
	case "id":
		switch t.text {
		case "true", "false":
			return &Expr{Kind: "bool", Lit: t.text}
		case "nil":
			return &Expr{Kind: "nil", Lit: "nil"}
		case "forall", "exists":
			var vars []BoundDecl
			for {
				n := ps.next()
				if n.kind != "id" {
					ps.fail("expected bound variable name")
				}
				ty := ps.typeText()
				vars = append(vars, BoundDecl{n.text, ty})
				if ps.isOp(",") {
					ps.next()
					continue
				}
				break
			}
			ps.expect("::")
			body := ps.cond()
			return &Expr{Kind: "quant", Op: t.text, Vars: vars, Args: []*Expr{body}}
		}
		return &Expr{Kind: "ident", Op: t.text, Pos: t.pos}
	case "op":
		if t.text == "(" {
			e := ps.cond()
			ps.expect(")")
			return e
		}
	}
	ps.p--
	ps.fail("unexpected %q", t.text)
	return nil
}
