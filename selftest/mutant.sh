#!/bin/sh
# usage: mutant.sh <patch.diff> <gowp args...>   — applies the patch to a scratch worktree of /repo HEAD and runs gowp on it
set -e
P=$(readlink -f "$1"); shift
S=${VERIF_SCRATCH:-/var/tmp/verif-$$}
mkdir -p "$S"
# several of these may run at once: retry if git's own locks collide
for i in 1 2 3 4 5 6; do git -C /repo worktree add -q --detach "$S/wt" HEAD 2>/dev/null && break; sleep 1; done
[ -d "$S/wt" ] || { echo "mutant.sh: could not create the scratch worktree"; exit 3; }
trap 'git -C /repo worktree remove --force "$S/wt"; rm -rf "$S"' EXIT
git -C "$S/wt" apply "$P"
VERIF_REPO="$S/wt" VERIF_OUT="$S/out" /verif/bin/gowp "$@" || true
