#!/bin/sh
# usage: mutant.sh <patch.diff> <gowp args...>   — applies the patch to a scratch worktree of /repo HEAD and runs gowp on it
set -e
P=$(readlink -f "$1"); shift
S=${VERIF_SCRATCH:-/var/tmp/verif-$$}
mkdir -p "$S"
git -C /repo worktree add -q --detach "$S/wt" HEAD
trap 'git -C /repo worktree remove --force "$S/wt"; rm -rf "$S"' EXIT
git -C "$S/wt" apply "$P"
VERIF_REPO="$S/wt" VERIF_OUT="$S/out" /verif/bin/gowp "$@" || true
