#!/bin/sh
# Runs every mutant of selftest/mutants through the check of the property its name starts with and
# expects a VIOLATION; then the unchanged tree must pass. usage: selftest/run.sh [PROPERTY...]
cd /verif
fail=0
for m in selftest/mutants/*.diff; do
  p=$(basename $m | cut -d_ -f1)
  if [ $# -gt 0 ]; then case " $* " in *" $p "*) ;; *) continue;; esac; fi
  if ! grep -q "\"$p\"" claims.json; then echo "SKIP $m (property $p not claimed)"; continue; fi
  out=$(./selftest/mutant.sh $m check -property $p 2>&1 | grep -v '^WARNING')
  if echo "$out" | grep -q "^VIOLATION property=$p"; then echo "CAUGHT $m: $(echo "$out" | grep -c '^VIOLATION') violation lines"; else echo "MISSED $m"; echo "$out" | tail -3; fail=1; fi
done
exit $fail
