#!/bin/bash
# The other half of the selftest: behaviour-preserving changes (selftest/neutral/*.diff) must NOT make the check of the
# property they are named after raise an alarm. usage: selftest/neutral.sh [-j N]
cd /verif
J=3
if [ "$1" = "-j" ]; then J=$2; shift 2; fi
one() {
  m=$1; p=$(basename $m | cut -d_ -f1)
  out=$(VERIF_SCRATCH=/var/tmp/verif-nt-$(basename $m .diff) ./selftest/mutant.sh $m check -property $p 2>&1 | grep -v '^WARNING')
  if echo "$out" | grep -q "^VIOLATION\|internal error"; then echo "ALARM $m"; echo "$out" | grep "^VIOLATION\|internal" | head -5; else echo "QUIET $m: $(echo "$out" | tail -1 | cut -c1-120)"; fi
}
export -f one
ls selftest/neutral/*.diff | xargs -P $J -I{} bash -c 'one {}' > /var/tmp/neutral.log 2>&1
cat /var/tmp/neutral.log
if grep -q '^ALARM' /var/tmp/neutral.log; then exit 1; fi
