#!/bin/bash
# Like run.sh, N mutants at a time (default 4). usage: selftest/run_parallel.sh [-j N] [PROPERTY...]
cd /verif
J=4
if [ "$1" = "-j" ]; then J=$2; shift 2; fi
PROPS="$*"
one() {
  m=$1; p=$(basename $m | cut -d_ -f1)
  out=$(VERIF_SCRATCH=/var/tmp/verif-st-$(basename $m .diff) ./selftest/mutant.sh $m check -property $p 2>&1 | grep -v '^WARNING')
  if echo "$out" | grep -q "^VIOLATION property=$p"; then echo "CAUGHT $m: $(echo "$out" | grep -c '^VIOLATION') violation lines"; else echo "MISSED $m"; echo "$out" | tail -3; fi
}
export -f one
for m in selftest/mutants/*.diff; do
  p=$(basename $m | cut -d_ -f1)
  if [ -n "$PROPS" ]; then case " $PROPS " in *" $p "*) ;; *) continue;; esac; fi
  grep -q "\"$p\"" claims.json || { echo "SKIP $m"; continue; }
  echo $m
done | grep -v '^SKIP' | xargs -P $J -I{} bash -c 'one {}' > /var/tmp/selftest.log 2>&1
if grep -q '^MISSED' /var/tmp/selftest.log; then grep -A3 '^MISSED' /var/tmp/selftest.log; exit 1; fi
echo "all $(grep -c '^CAUGHT' /var/tmp/selftest.log) mutants caught"
