#!/usr/bin/env python3
"""mkmutant.py NAME FILE OLD NEW  — writes selftest/mutants/NAME.diff (a compiling change applied to a scratch worktree of /repo HEAD)."""
import sys, subprocess, os, tempfile, shutil
name, file, old, new = sys.argv[1:5]
d = tempfile.mkdtemp(prefix='mk', dir='/var/tmp')
wt = os.path.join(d, 'wt')
subprocess.check_call(['git','-C','/repo','worktree','add','-q','--detach',wt,'HEAD'])
try:
    p = os.path.join(wt, file); s = open(p).read()
    assert s.count(old) >= 1, "pattern not found"
    s = s.replace(old, new, 1); open(p,'w').write(s)
    env = dict(os.environ, GOFLAGS='-mod=mod', GOPROXY='off', GOSUMDB='off', GOTOOLCHAIN='local')
    r = subprocess.run(['go','build','./'+os.path.dirname(file)], cwd=wt, env=env, capture_output=True, text=True)
    if r.returncode != 0:
        print("DOES NOT COMPILE:", r.stderr); sys.exit(1)
    diff = subprocess.run(['git','diff'], cwd=wt, capture_output=True, text=True).stdout
    open(f'/verif/selftest/mutants/{name}.diff','w').write(diff)
    print("wrote", name)
finally:
    subprocess.call(['git','-C','/repo','worktree','remove','--force',wt]); shutil.rmtree(d, ignore_errors=True)
