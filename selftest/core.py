#!/usr/bin/env python3
"""core.py FILE.smt2 — names every assertion and prints an unsat core (debug aid for vacuity hunting)."""
import sys,re,subprocess
src=open(sys.argv[1]).read().split('\n')
out=[];n=0;names=[]
for l in src:
    if l.startswith('(assert') and not l.startswith('(assert (distinct'):
        n+=1; nm=f'a{n}'; names.append((nm,l)); out.append(f'(assert (! {l[8:-1]} :named {nm}))')
    elif l.startswith('(get-model'): out.append('(get-unsat-core)')
    elif l.startswith('(set-option :produce-models'): out.append('(set-option :produce-unsat-cores true)')
    else: out.append(l)
if '(set-option :produce-unsat-cores true)' not in out: out.insert(0,'(set-option :produce-unsat-cores true)')
if '(get-unsat-core)' not in out: out.append('(get-unsat-core)')
open('/tmp/core.smt2','w').write('\n'.join(out))
r=subprocess.run(['z3-new','-smt2','-T:20','/tmp/core.smt2'],capture_output=True,text=True).stdout
print(r[:200])
d=dict(names)
for c in re.findall(r'\ba\d+\b',r.split('\n',1)[1] if '\n' in r else ''): print(c, d[c][:600])
